//! C17 — the HTTP client delivers a response body completely or with an error, never cut; a
//! connection goes back to the pool only after the response was read to its end; open
//! connections never exceed `Connector::limit`.
//!
//! The real `awc::Client` talks to a scripted raw TCP server on loop-back (std threads). A
//! scenario fixes, per authority and per accepted connection, the exact event list the server
//! plays: `W` wait for a request, `D` write these bytes (own TCP segment), `C` close (half-close,
//! then wait for the client's FIN). The server records which connection received which request
//! and how many sockets the client holds. Protocol: see the `vh` crate docs.

use std::{
    io::{Read, Write},
    net::{Shutdown, TcpListener, TcpStream},
    sync::{
        atomic::{AtomicBool, AtomicUsize, Ordering},
        Arc, Mutex,
    },
    time::Duration,
};

use serde::{Deserialize, Serialize};
use vh::*;

// ------------------------------------------------------------------ scenario

#[derive(Serialize, Deserialize, Clone, Debug, PartialEq)]
#[serde(tag = "ev")]
enum Ev {
    /// wait for (and consume) one request; starts the next response block
    W,
    /// gate inside a response block: wait for (and consume) one further request
    G,
    /// write these bytes as one segment
    D { hex: String },
    /// pause long enough for everything sent so far to be delivered and read (not in the model)
    P,
    /// close the connection (server side)
    C,
}

#[derive(Serialize, Deserialize, Clone, Debug)]
struct Req {
    /// authority index (0 or 1)
    a: usize,
    /// HEAD instead of GET
    head: bool,
    /// read the whole body (`false`: drop the response right after the head)
    read: bool,
    /// the request is sent NON-persistent: 1 = `force_close()` (Connection: close), 2 = HTTP/1.0
    /// (`head.connection_type()` = Close in both cases); 0 = keep-alive
    #[serde(default)]
    close: u8,
}

#[derive(Serialize, Deserialize, Clone, Debug)]
struct Scenario {
    limit: usize,
    /// all requests at once (true) or one after the other (false)
    conc: bool,
    reqs: Vec<Req>,
    /// conns[authority][k] = events of the k-th connection accepted for that authority
    conns: Vec<Vec<Vec<Ev>>>,
}

fn d(b: &[u8]) -> Ev {
    Ev::D { hex: hex(b) }
}

// ------------------------------------------------------------------ scripted server

const TICK: Duration = Duration::from_millis(4);
const SEG_GAP: Duration = Duration::from_millis(1);

/// All waiting times are multiples of one unit that is calibrated at start-up to the speed of
/// the machine (a loaded machine delivers loop-back segments and schedules threads late).
static SCALE_PCT: AtomicUsize = AtomicUsize::new(100);
fn ms(x: u64) -> Duration {
    Duration::from_micros(x * 10 * SCALE_PCT.load(Ordering::Relaxed) as u64)
}
/// pause inside a script: everything sent before it has been read by the client after it
fn pause() -> Duration {
    ms(20)
}
/// the peer counts as silent when it did nothing for this long (must exceed `pause`)
fn quiet() -> Duration {
    ms(50)
}
fn client_timeout() -> Duration {
    ms(400)
}

#[derive(Default)]
struct ServerLog {
    /// per authority: per accepted connection: (request id, response block that consumed it)
    served: Mutex<Vec<Vec<Vec<(usize, usize)>>>>,
    open: AtomicUsize,
    peak: AtomicUsize,
    accepted: AtomicUsize,
    /// time of the last thing the server did or saw
    last: Mutex<Option<std::time::Instant>>,
    /// one entry per accepted connection: progress counter of its handler thread
    handlers: Mutex<Vec<Arc<HandlerState>>>,
    /// requests received by the server / requests the client has finished (outcome returned)
    requests_seen: AtomicUsize,
    completed: AtomicUsize,
}

/// `beat` counts the read attempts a handler made while blocked waiting for the client (W / G /
/// after its script): two more beats mean the handler has looked at its socket after a given
/// moment, so it has seen any FIN or request sent before that moment - whatever the CPU load.
#[derive(Default)]
struct HandlerState {
    beat: AtomicUsize,
    done: AtomicBool,
}

impl ServerLog {
    fn touch(&self) {
        *self.last.lock().unwrap() = Some(std::time::Instant::now());
    }
    fn idle_for(&self) -> Duration {
        self.last.lock().unwrap().map(|t| t.elapsed()).unwrap_or(Duration::from_secs(3600))
    }
}

fn find_crlfcrlf(b: &[u8]) -> Option<usize> {
    b.windows(4).position(|w| w == b"\r\n\r\n").map(|p| p + 4)
}

/// request id = number after "/r" in the request line
fn req_id(head: &[u8]) -> usize {
    let s = String::from_utf8_lossy(head);
    s.split("/r").nth(1).map(|t| t.chars().take_while(|c| c.is_ascii_digit()).collect::<String>()).and_then(|t| t.parse().ok()).unwrap_or(9999)
}

fn handle_conn(mut s: TcpStream, evs: Vec<Ev>, auth: usize, idx: usize, log: Arc<ServerLog>, stop: Arc<AtomicBool>, hs: Arc<HandlerState>) {
    let _ = s.set_nodelay(true);
    let _ = s.set_read_timeout(Some(TICK));
    let mut inbuf: Vec<u8> = vec![];
    let mut client_gone = false;
    let mut tmp = [0u8; 4096];
    // returns false when the client closed / scenario stopped
    let mut wait_request = |s: &mut TcpStream, inbuf: &mut Vec<u8>, client_gone: &mut bool, block: usize| -> bool {
        loop {
            if let Some(n) = find_crlfcrlf(inbuf) {
                let head: Vec<u8> = inbuf.drain(..n).collect();
                log.served.lock().unwrap()[auth][idx].push((req_id(&head), block));
                log.requests_seen.fetch_add(1, Ordering::SeqCst);
                log.touch();
                return true;
            }
            if stop.load(Ordering::SeqCst) {
                return false;
            }
            let rd = s.read(&mut tmp);
            hs.beat.fetch_add(1, Ordering::SeqCst);
            match rd {
                Ok(0) => {
                    *client_gone = true;
                    return false;
                }
                Ok(n) => {
                    inbuf.extend_from_slice(&tmp[..n]);
                    log.touch();
                }
                Err(e) if matches!(e.kind(), std::io::ErrorKind::WouldBlock | std::io::ErrorKind::TimedOut) => {}
                Err(_) => {
                    *client_gone = true;
                    return false;
                }
            }
        }
    };
    let mut alive = true;
    let mut block = 0usize; // number of W passed
    for ev in &evs {
        match ev {
            Ev::W | Ev::G => {
                if *ev == Ev::W {
                    block += 1;
                }
                if !wait_request(&mut s, &mut inbuf, &mut client_gone, block.wrapping_sub(1)) {
                    alive = false;
                    break;
                }
            }
            Ev::P => {
                // until the client has returned from the request in progress (bounded)
                let seen = log.requests_seen.load(Ordering::SeqCst);
                let t0 = std::time::Instant::now();
                while log.completed.load(Ordering::SeqCst) < seen && t0.elapsed() < client_timeout() * 3 && !stop.load(Ordering::SeqCst) {
                    std::thread::sleep(Duration::from_millis(1));
                }
                std::thread::sleep(pause());
                log.touch();
            }
            Ev::D { hex } => {
                let b = unhex(hex);
                if s.write_all(&b).and_then(|_| s.flush()).is_err() {
                    break;
                }
                log.touch();
                std::thread::sleep(SEG_GAP);
            }
            Ev::C => {
                let _ = s.shutdown(Shutdown::Write);
                log.touch();
                break;
            }
        }
    }
    // drain: log further requests, wait for the client's FIN
    while alive && !client_gone {
        if !wait_request(&mut s, &mut inbuf, &mut client_gone, usize::MAX) {
            break;
        }
    }
    // wait for FIN if the scenario is still running
    while !client_gone && !stop.load(Ordering::SeqCst) {
        let rd = s.read(&mut tmp);
        hs.beat.fetch_add(1, Ordering::SeqCst);
        match rd {
            Ok(0) => client_gone = true,
            Ok(_) => {}
            Err(e) if matches!(e.kind(), std::io::ErrorKind::WouldBlock | std::io::ErrorKind::TimedOut) => {}
            Err(_) => client_gone = true,
        }
    }
    log.open.fetch_sub(1, Ordering::SeqCst);
    hs.done.store(true, Ordering::SeqCst);
    log.touch();
}

struct Server {
    ports: Vec<u16>,
    log: Arc<ServerLog>,
    stop: Arc<AtomicBool>,
    threads: Vec<std::thread::JoinHandle<()>>,
}

fn start_server(sc: &Scenario) -> Server {
    let log = Arc::new(ServerLog::default());
    let stop = Arc::new(AtomicBool::new(false));
    let mut ports = vec![];
    let mut threads = vec![];
    *log.served.lock().unwrap() = sc.conns.iter().map(|_| vec![]).collect();
    for (auth, scripts) in sc.conns.iter().enumerate() {
        let l = TcpListener::bind("127.0.0.1:0").expect("bind");
        l.set_nonblocking(true).unwrap();
        ports.push(l.local_addr().unwrap().port());
        let scripts = scripts.clone();
        let (log, stop) = (log.clone(), stop.clone());
        threads.push(std::thread::spawn(move || {
            let mut idx = 0usize;
            let mut hs = vec![];
            while !stop.load(Ordering::SeqCst) {
                match l.accept() {
                    Ok((s, _)) => {
                        s.set_nonblocking(false).unwrap();
                        let o = log.open.fetch_add(1, Ordering::SeqCst) + 1;
                        log.peak.fetch_max(o, Ordering::SeqCst);
                        log.accepted.fetch_add(1, Ordering::SeqCst);
                        log.touch();
                        log.served.lock().unwrap()[auth].push(vec![]);
                        let evs = scripts.get(idx).cloned().unwrap_or_default();
                        let (log2, stop2) = (log.clone(), stop.clone());
                        let k = idx;
                        let st = Arc::new(HandlerState::default());
                        log.handlers.lock().unwrap().push(st.clone());
                        hs.push(std::thread::spawn(move || handle_conn(s, evs, auth, k, log2, stop2, st)));
                        idx += 1;
                    }
                    Err(_) => std::thread::sleep(Duration::from_millis(1)),
                }
            }
            for h in hs {
                let _ = h.join();
            }
        }));
    }
    Server { ports, log, stop, threads }
}

// ------------------------------------------------------------------ client side

/// The client has returned from `n` more requests. Wait until every connection handler of the
/// server is blocked waiting for the client again and has looked at its socket twice since (so
/// every FIN / byte the client sent has been seen and everything the script sends unprompted has
/// been sent), and the server has been silent for `quiet()`. Progress-based, bounded.
async fn settle(log: &ServerLog, n: usize) {
    log.completed.fetch_add(n, Ordering::SeqCst);
    let t0 = std::time::Instant::now();
    let snap: Vec<(Arc<HandlerState>, usize)> = log.handlers.lock().unwrap().iter().map(|h| (h.clone(), h.beat.load(Ordering::SeqCst))).collect();
    actix_rt::time::sleep(quiet() / 5).await;
    loop {
        let all = snap.iter().all(|(h, b)| h.done.load(Ordering::SeqCst) || h.beat.load(Ordering::SeqCst) >= b + 2);
        if (all && log.idle_for() >= quiet() / 2) || t0.elapsed() > client_timeout() * 6 {
            break;
        }
        actix_rt::time::sleep(Duration::from_millis(2)).await;
    }
}

#[derive(Clone, Debug, PartialEq)]
enum Outcome {
    /// error before a response head was returned
    SendErr(&'static str),
    /// head returned; body result (None = response dropped unread)
    Resp { status: u16, body: Option<Result<Vec<u8>, &'static str>> },
}

fn class_send(e: &awc::error::SendRequestError) -> &'static str {
    use awc::error::{ConnectError, SendRequestError as E};
    match e {
        E::Connect(ConnectError::Disconnected) => "disconnected",
        E::Connect(ConnectError::Timeout) => "timeout",
        E::Connect(_) => "connect",
        E::Timeout => "timeout",
        E::Response(_) => "response",
        E::Send(_) => "io",
        _ => "other",
    }
}
fn class_payload(e: &awc::error::PayloadError) -> &'static str {
    use awc::error::PayloadError as P;
    match e {
        // io::Error of the chunked decoder, converted by `From<io::Error> for PayloadError`
        P::Incomplete(Some(_)) => "chunk",
        P::Incomplete(None) => "incomplete",
        P::Io(e) if e.kind() == std::io::ErrorKind::TimedOut => "timeout",
        P::Io(_) => "io",
        P::Overflow => "overflow",
        P::UnknownLength => "unknown-length",
        P::EncodingCorrupted => "encoding",
        _ => "other",
    }
}

struct RunOut {
    outcomes: Vec<Outcome>,
    /// sockets held by the client after each request settled (sequential mode only)
    open_after: Vec<usize>,
    served: Vec<Vec<Vec<(usize, usize)>>>,
    peak: usize,
    accepted: usize,
}

async fn one_request(client: &awc::Client, port: u16, k: usize, r: &Req) -> Outcome {
    let url = format!("http://127.0.0.1:{}/r{}", port, k);
    let rq = if r.head { client.head(url) } else { client.get(url) };
    let rq = match r.close {
        1 => rq.force_close(),
        2 => rq.version(awc::http::Version::HTTP_10),
        _ => rq,
    };
    match rq.send().await {
        Err(e) => Outcome::SendErr(class_send(&e)),
        Ok(resp) => {
            let status = resp.status().as_u16();
            if r.read {
                let mut resp = resp.timeout(client_timeout());
                let b = resp.body().limit(1 << 22).await;
                drop(resp);
                Outcome::Resp { status, body: Some(b.map(|b| b.to_vec()).map_err(|e| class_payload(&e))) }
            } else {
                drop(resp);
                Outcome::Resp { status, body: None }
            }
        }
    }
}

fn run_scenario(sc: &Scenario) -> RunOut {
    let srv = start_server(sc);
    let ports = srv.ports.clone();
    let log = srv.log.clone();
    let sc2 = sc.clone();
    let (outcomes, open_after) = std::thread::spawn(move || {
        vh::exec::run_local(async move {
            let client = awc::Client::builder()
                .connector(awc::Connector::new().limit(sc2.limit).timeout(client_timeout() * 3))
                .timeout(client_timeout())
                .finish();
            let mut outcomes = vec![];
            let mut open_after = vec![];
            if sc2.conc {
                let futs: Vec<_> = sc2.reqs.iter().enumerate().map(|(k, r)| one_request(&client, ports[r.a], k, r)).collect();
                outcomes = futures_util::future::join_all(futs).await;
                settle(&log, sc2.reqs.len()).await;
                open_after.push(log.open.load(Ordering::SeqCst));
            } else {
                for (k, r) in sc2.reqs.iter().enumerate() {
                    outcomes.push(one_request(&client, ports[r.a], k, r).await);
                    settle(&log, 1).await;
                    open_after.push(log.open.load(Ordering::SeqCst));
                }
            }
            drop(client);
            (outcomes, open_after)
        })
    })
    .join()
    .expect("client thread");
    srv.stop.store(true, Ordering::SeqCst);
    for t in srv.threads {
        let _ = t.join();
    }
    let served = srv.log.served.lock().unwrap().clone();
    RunOut { outcomes, open_after, served, peak: srv.log.peak.load(Ordering::SeqCst), accepted: srv.log.accepted.load(Ordering::SeqCst) }
}

// ------------------------------------------------------------------ rendering

fn v_outcome(o: &Outcome) -> V {
    match o {
        Outcome::SendErr(c) => V::T("senderr", vec![V::h(c)]),
        Outcome::Resp { status, body } => V::T(
            "resp",
            vec![
                V::n(*status as u64),
                match body {
                    None => V::t0("dropped"),
                    Some(Ok(b)) => v_body(b),
                    Some(Err(c)) => V::T("err", vec![V::h(c)]),
                },
            ],
        ),
    }
}

fn show_outcome(o: &Outcome) -> String {
    match o {
        Outcome::SendErr(c) => format!("SendErr({c})"),
        Outcome::Resp { status, body: None } => format!("{status} <dropped>"),
        Outcome::Resp { status, body: Some(Ok(b)) } => format!("{status} Ok({:?})", String::from_utf8_lossy(b)),
        Outcome::Resp { status, body: Some(Err(c)) } => format!("{status} Err({c})"),
    }
}

// ------------------------------------------------------------------ reference reading (oracle)

/// What a response block means, read at once from its complete byte string (RFC 7230 §3.3.3).
/// Written independently of the model: no incremental state, no buffers.
#[derive(Debug, Clone, PartialEq)]
enum Intent {
    /// a final response is complete: status, body, number of bytes after its end
    Complete { status: u16, body: Vec<u8>, extra: usize, interim: usize },
    /// final head complete, Content-Length / chunked body not (yet) complete
    Truncated { status: u16, interim: usize },
    /// read-to-close body on a connection that is not closed, or no final head (yet)
    NoEnd { interim: usize, head: Option<u16> },
    Malformed,
}

fn split_head_ref(b: &[u8]) -> Option<(u16, bool, Vec<(String, String)>, usize)> {
    let end = find_crlfcrlf(b)?;
    let text = String::from_utf8_lossy(&b[..end - 4]).to_string();
    let mut lines = text.split("\r\n");
    let sl = lines.next()?;
    let v11 = sl.starts_with("HTTP/1.1 ");
    if !v11 && !sl.starts_with("HTTP/1.0 ") {
        return Some((0, false, vec![], end));
    }
    let status: u16 = sl.get(9..12).and_then(|t| t.parse().ok()).unwrap_or(0);
    let mut hs = vec![];
    for l in lines {
        match l.split_once(':') {
            Some((n, v)) => hs.push((n.to_ascii_lowercase(), v.trim().to_string())),
            None => return Some((0, false, vec![], end)),
        }
    }
    Some((status, v11, hs, end))
}

fn ref_chunked(b: &[u8]) -> Result<Option<(Vec<u8>, usize)>, ()> {
    // Ok(None) = needs more bytes
    let mut pos = 0;
    let mut body = vec![];
    loop {
        let Some(nl) = b[pos..].windows(2).position(|w| w == b"\r\n") else {
            // no complete size line yet: everything so far must look like a size line
            return if b[pos..].iter().all(|c| c.is_ascii_hexdigit() || b" \t;=\r".contains(c) || c.is_ascii_alphanumeric()) { Ok(None) } else { Err(()) };
        };
        let line = &b[pos..pos + nl];
        let digits: Vec<u8> = line.iter().copied().take_while(|c| c.is_ascii_hexdigit()).collect();
        if digits.is_empty() || digits.len() > 15 {
            return Err(());
        }
        let rest = &line[digits.len()..];
        let rest_trim: Vec<u8> = rest.iter().copied().skip_while(|c| *c == b' ' || *c == b'\t').collect();
        if !(rest_trim.is_empty() || rest_trim[0] == b';') {
            return Err(());
        }
        let n = usize::from_str_radix(std::str::from_utf8(&digits).unwrap(), 16).map_err(|_| ())?;
        pos += nl + 2;
        if n == 0 {
            return if b.len() >= pos + 2 {
                if &b[pos..pos + 2] == b"\r\n" { Ok(Some((body, pos + 2))) } else { Err(()) }
            } else if b[pos..].iter().zip(b"\r\n").all(|(x, y)| x == y) {
                Ok(None)
            } else {
                Err(())
            };
        }
        if b.len() < pos + n {
            return Ok(None);
        }
        body.extend_from_slice(&b[pos..pos + n]);
        pos += n;
        if b.len() < pos + 2 {
            return if b[pos..].iter().zip(b"\r\n").all(|(x, y)| x == y) { Ok(None) } else { Err(()) };
        }
        if &b[pos..pos + 2] != b"\r\n" {
            return Err(());
        }
        pos += 2;
    }
}

fn ref_parse(bytes: &[u8], closed: bool, head_req: bool) -> Intent {
    let mut b = bytes;
    let mut interim = 0usize;
    loop {
        let Some((status, v11, hs, end)) = split_head_ref(b) else {
            return Intent::NoEnd { interim, head: None };
        };
        if !(100..=999).contains(&status) {
            return Intent::Malformed;
        }
        let rest = &b[end..];
        if (100..200).contains(&status) && status != 101 {
            interim += 1;
            b = rest;
            continue;
        }
        let cls: Vec<&String> = hs.iter().filter(|h| h.0 == "content-length").map(|h| &h.1).collect();
        let tes: Vec<&String> = hs.iter().filter(|h| h.0 == "transfer-encoding").map(|h| &h.1).collect();
        // RFC 7230 3.3.3 rule 3: a response carrying both Transfer-Encoding and Content-Length is
        // framed by the transfer coding (chunked overrides the length)
        if cls.len() > 1 || tes.len() > 1 {
            return Intent::Malformed;
        }
        if head_req || status == 204 || status == 304 {
            return Intent::Complete { status, body: vec![], extra: rest.len(), interim };
        }
        if let Some(te) = tes.first() {
            if !v11 || !te.eq_ignore_ascii_case("chunked") {
                return Intent::Malformed;
            }
            return match ref_chunked(rest) {
                Err(()) => Intent::Malformed,
                Ok(None) => Intent::Truncated { status, interim },
                Ok(Some((body, used))) => Intent::Complete { status, body, extra: rest.len() - used, interim },
            };
        }
        if let Some(cl) = cls.first() {
            let Ok(n) = cl.parse::<usize>() else { return Intent::Malformed };
            if !cl.bytes().all(|c| c.is_ascii_digit()) {
                return Intent::Malformed;
            }
            return if rest.len() >= n {
                Intent::Complete { status, body: rest[..n].to_vec(), extra: rest.len() - n, interim }
            } else {
                Intent::Truncated { status, interim }
            };
        }
        // no declared length: HTTP/1.0 and 101 run to the end of the connection; for HTTP/1.1
        // the generator never sends body bytes in this case
        if !v11 || status == 101 {
            return if closed { Intent::Complete { status, body: rest.to_vec(), extra: 0, interim } } else { Intent::NoEnd { interim, head: Some(status) } };
        }
        return Intent::Complete { status, body: vec![], extra: rest.len(), interim };
    }
}

/// bytes the script sends unprompted after a pause inside block `blk` (they reach the socket
/// after the client returned from the request and before the next one: unsolicited leftovers)
fn late_bytes_in_block(evs: &[Ev], blk: usize) -> usize {
    let mut cur: isize = -1;
    let mut after_pause = false;
    let mut n = 0;
    for e in evs {
        match e {
            Ev::W => {
                cur += 1;
                after_pause = false;
            }
            Ev::P => after_pause = true,
            Ev::D { hex } if after_pause && cur == blk as isize => n += hex.len() / 2,
            Ev::C => break,
            _ => {}
        }
    }
    n
}

/// response blocks of one connection script: (bytes, closed by C, has gate)
fn blocks_of(evs: &[Ev]) -> Vec<(Vec<u8>, bool, bool)> {
    let mut out: Vec<(Vec<u8>, bool, bool)> = vec![];
    let mut started = false;
    for e in evs {
        match e {
            Ev::W => {
                out.push((vec![], false, false));
                started = true;
            }
            Ev::G => {
                if let Some(l) = out.last_mut() {
                    l.2 = true;
                }
            }
            Ev::D { hex } => {
                if !started {
                    out.push((vec![], false, false));
                    started = true;
                }
                out.last_mut().unwrap().0.extend(unhex(hex));
            }
            Ev::P => {}
            Ev::C => {
                if let Some(l) = out.last_mut() {
                    l.1 = true;
                }
                break;
            }
        }
    }
    out
}

fn known_class(sc: &Scenario) -> &'static str {
    let mut auths: Vec<usize> = sc.reqs.iter().map(|r| r.a).collect();
    auths.sort();
    auths.dedup();
    if auths.len() >= 2 {
        return "F11-multi-authority-idle";
    }
    let mut f17 = false;
    for a in &sc.conns {
        for c in a {
            for (bytes, closed, _) in blocks_of(c) {
                match ref_parse(&bytes, closed, false) {
                    Intent::Truncated { .. } if closed => return "F9-truncated-length-body",
                    Intent::Complete { interim, .. } | Intent::Truncated { interim, .. } | Intent::NoEnd { interim, .. } if interim > 0 => f17 = true,
                    _ => {}
                }
            }
        }
    }
    if f17 {
        "F17-interim-1xx-final"
    } else {
        ""
    }
}

fn oracle(sc: &Scenario, r: &RunOut) -> Result<(), String> {
    // pool. The accept-time peak is only meaningful when no connection is closed during the run
    // (concurrent scenarios: keep-alive scripts only): the server notices a client's FIN a few
    // milliseconds late, so in sequential scenarios "closed, then opened another" would be
    // counted as an overlap. There the settled count after every request is exact.
    if sc.conc && r.peak > sc.limit {
        return Err(format!("{} sockets open at once with limit {}", r.peak, sc.limit));
    }
    for (i, o) in r.open_after.iter().enumerate() {
        if *o > sc.limit {
            return Err(format!("{} sockets open after request {i} with limit {}", o, sc.limit));
        }
    }
    // where did each request go
    for (k, rq) in sc.reqs.iter().enumerate() {
        let mut place: Option<(usize, usize, bool)> = None; // (conn, block, owner)
        for (ci, conn) in r.served[rq.a].iter().enumerate() {
            for (pos, (id, blk)) in conn.iter().enumerate() {
                if *id == k {
                    let owner = *blk != usize::MAX && !conn[..pos].iter().any(|(_, b)| b == blk);
                    place = Some((ci, *blk, owner));
                }
            }
        }
        let out = &r.outcomes[k];
        let is_resp = matches!(out, Outcome::Resp { .. });
        let Some((ci, blk, owner)) = place else {
            if is_resp {
                return Err(format!("request {k} never reached the server but got {}", show_outcome(out)));
            }
            continue;
        };
        let blocks0 = blocks_of(&sc.conns[rq.a].get(ci).cloned().unwrap_or_default());
        // reuse discipline: "returned to the pool only when ... on a persistent connection": no
        // earlier request on this socket was sent non-persistent (Connection: close / HTTP/1.0),
        // and no earlier response on it announced `connection: close`
        for (pid, pblk) in r.served[rq.a][ci].iter() {
            if *pid == k {
                break;
            }
            if sc.reqs[*pid].close != 0 {
                return Err(format!(
                    "request {k} arrived on the socket that had carried request {pid}, which was sent non-persistent ({}): that connection was returned to the pool and reused",
                    if sc.reqs[*pid].close == 1 { "force_close, Connection: close" } else { "HTTP/1.0" }
                ));
            }
            if let Some((pb, _, _)) = blocks0.get(*pblk) {
                if let Some((_, _, hs, _)) = split_head_ref(pb) {
                    if hs.iter().any(|(n, v)| n == "connection" && v.eq_ignore_ascii_case("close")) {
                        return Err(format!("request {k} arrived on the socket on which the response to request {pid} had announced `connection: close`"));
                    }
                }
            }
        }
        if !owner {
            if is_resp {
                return Err(format!("request {k} was not answered by the server (it only opened a gate / arrived after the script) but the client returned {}: bytes of another exchange", show_outcome(out)));
            }
            continue;
        }
        let script = sc.conns[rq.a].get(ci).cloned().unwrap_or_default();
        let blocks = blocks_of(&script);
        let Some((bytes, closed, _gate)) = blocks.get(blk) else { continue };
        let intent = ref_parse(bytes, *closed, rq.head);
        if let Outcome::Resp { status, body } = out {
            match &intent {
                Intent::Complete { status: s, body: b, .. } => {
                    if status != s {
                        return Err(format!("request {k}: status {status} returned, the server's final response is {s}{}", if (100..200).contains(status) && *status != 101 { " (interim response returned as final)" } else { "" }));
                    }
                    if let Some(Ok(x)) = body {
                        if x != b {
                            return Err(format!("request {k}: body {:?} delivered as complete, the server sent {:?}{}", String::from_utf8_lossy(x), String::from_utf8_lossy(b), if b.starts_with(x) { " (cut)" } else { "" }));
                        }
                    }
                }
                Intent::Truncated { status: s, .. } => {
                    if let Some(Ok(x)) = body {
                        return Err(format!("request {k}: short success: the framed body was cut by the end of the connection but {:?} was delivered as complete", String::from_utf8_lossy(x)));
                    }
                    if status != s {
                        return Err(format!("request {k}: status {status} returned, the server's final response is {s}"));
                    }
                }
                Intent::NoEnd { interim, head } => {
                    if *head != Some(*status) {
                        return Err(format!("request {k}: response {status} returned but the server sent no such final head ({} interim)", interim));
                    }
                    if let Some(Ok(x)) = body {
                        return Err(format!("request {k}: body {:?} delivered as complete although a read-to-close body had not ended", String::from_utf8_lossy(x)));
                    }
                }
                Intent::Malformed => {}
            }
        }
        // no leftovers: the previous block of this connection pushed bytes nobody asked for
        // after its response had been read; they were in the socket when this request was sent
        if blk >= 1 && late_bytes_in_block(&script, blk - 1) > 0 {
            return Err(format!(
                "request {k} was sent on a connection holding {} unread bytes of an earlier exchange (leftovers); it got {}",
                late_bytes_in_block(&script, blk - 1),
                show_outcome(out)
            ));
        }
        // reuse discipline: the previous exchange on this connection was read to its end
        if blk >= 1 {
            if let Some((pid, _)) = r.served[rq.a][ci].iter().find(|(_, b)| *b == blk - 1) {
                let pint = ref_parse(&blocks[blk - 1].0, blocks[blk - 1].1, sc.reqs[*pid].head);
                let done = match (&pint, &r.outcomes[*pid]) {
                    (Intent::Complete { body, .. }, Outcome::Resp { body: got, .. }) => body.is_empty() || matches!(got, Some(Ok(_))),
                    _ => false,
                };
                if !done {
                    return Err(format!("request {k} was sent on a connection whose previous exchange (request {pid}: {}) was not read to its end", show_outcome(&r.outcomes[*pid])));
                }
            }
        }
    }
    Ok(())
}

// ------------------------------------------------------------------ Gallina rendering

/// byte string as a Gallina term; long strings are split (a string literal of 10^4.. characters
/// overflows coqc's stack)
fn coq_hx(hex: &str) -> String {
    if hex.len() <= 4000 {
        return format!("hx \"{}\"", hex);
    }
    let parts: Vec<String> = hex.as_bytes().chunks(4000).map(|c| format!("hx \"{}\"", std::str::from_utf8(c).unwrap())).collect();
    parts.join(" ++ ")
}

/// bodies longer than 1 KiB are compared by length, a polynomial digest and their first 32 bytes
fn v_body(b: &[u8]) -> V {
    if b.len() <= 1024 {
        V::T("ok", vec![V::h(b)])
    } else {
        let d = b.iter().fold(0u64, |d, x| (d * 31 + *x as u64) % 1_000_000_007);
        V::T("okbig", vec![V::us(b.len()), V::n(d), V::h(&b[..32])])
    }
}

fn coq_case(sc: &Scenario, f9: bool, f17: bool) -> String {
    let reqs = coq_list(&sc.reqs, |r| format!("mk_req {} {} {} {}", r.a, coq_bool(r.head), coq_bool(r.read), coq_bool(r.close != 0)));
    let conns = coq_list(&sc.conns, |a| {
        coq_list(a, |c| {
            let evs: Vec<String> = c
                .iter()
                .filter_map(|e| match e {
                    Ev::W | Ev::G => Some("EW".to_string()),
                    Ev::D { hex } if !hex.is_empty() => Some(format!("ED ({})", coq_hx(hex))),
                    Ev::D { .. } | Ev::P => None,
                    Ev::C => Some("EC".to_string()),
                })
                .collect();
            format!("[{}]", evs.join("; "))
        })
    });
    format!("mk_case {} {} {} {} {} {}", coq_bool(f9), coq_bool(f17), sc.limit, coq_bool(sc.conc), reqs, conns)
}

fn v_run(sc: &Scenario, r: &RunOut) -> V {
    if sc.conc {
        V::T("conc", vec![V::L(r.outcomes.iter().map(v_outcome).collect()), V::b(r.peak <= sc.limit)])
    } else {
        V::T(
            "seq",
            vec![
                V::L(r.outcomes.iter().zip(&r.open_after).map(|(o, n)| V::T("req", vec![v_outcome(o), V::us(*n)])).collect()),
                V::L(r.served.iter().map(|a| V::L(a.iter().map(|c| V::L(c.iter().map(|(id, _)| V::us(*id)).collect())).collect())).collect()),
            ],
        )
    }
}

// ------------------------------------------------------------------ generator

#[derive(Clone)]
enum Fr {
    Cl,
    Chunked,
    NoLen,
}

fn reason(status: u16) -> &'static str {
    match status {
        100 => "Continue",
        101 => "Switching Protocols",
        102 => "Processing",
        103 => "Early Hints",
        200 => "OK",
        204 => "No Content",
        304 => "Not Modified",
        404 => "Not Found",
        _ => "Status",
    }
}

/// (head, body-on-the-wire)
fn wire(rng: &mut Rng, status: u16, v11: bool, fr: &Fr, body: &[u8], conn: Option<&str>) -> (Vec<u8>, Vec<u8>) {
    let mut h = format!("HTTP/1.{} {} {}\r\n", if v11 { 1 } else { 0 }, status, reason(status)).into_bytes();
    let mut push = |n: &str, v: &str| {
        h.extend_from_slice(format!("{}:{}{}\r\n", n, if n.len() % 2 == 0 { " " } else { "" }, v).as_bytes());
    };
    if rng.chance(1, 3) {
        push("server", "scripted");
    }
    let mut w = vec![];
    match fr {
        Fr::Cl => {
            push(*rng.pick(&["content-length", "Content-Length", "CONTENT-LENGTH"]), &body.len().to_string());
            w.extend_from_slice(body);
        }
        Fr::Chunked => {
            push(*rng.pick(&["transfer-encoding", "Transfer-Encoding"]), *rng.pick(&["chunked", "Chunked"]));
            let mut pos = 0;
            while pos < body.len() {
                let n = (rng.range(1, 40) as usize).min(body.len() - pos);
                let sz = if rng.chance(1, 3) { format!("{:X}", n) } else { format!("{:x}", n) };
                let ext = match rng.below(6) {
                    0 => ";x=1",
                    1 => " ",
                    _ => "",
                };
                w.extend_from_slice(format!("{}{}\r\n", sz, ext).as_bytes());
                w.extend_from_slice(&body[pos..pos + n]);
                w.extend_from_slice(b"\r\n");
                pos += n;
            }
            w.extend_from_slice(b"0\r\n\r\n");
        }
        Fr::NoLen => w.extend_from_slice(body),
    }
    if let Some(c) = conn {
        push("connection", c);
    }
    if rng.chance(1, 4) {
        push("x-pad", "abc def");
    }
    h.extend_from_slice(b"\r\n");
    (h, w)
}

fn rand_body(rng: &mut Rng, max: usize) -> Vec<u8> {
    let n = match rng.below(6) {
        0 => 1,
        1 => rng.range(1, 5) as usize,
        2 => max,
        _ => rng.range(1, max as u64) as usize,
    };
    (0..n).map(|i| b"abcdefghijklmnopqrstuvwxyz0123456789\r\n"[(rng.below(38) as usize + i) % 38]).collect()
}

fn segs(rng: &mut Rng, data: &[u8]) -> Vec<Ev> {
    if data.is_empty() {
        return vec![];
    }
    // long bodies: a few cuts only (one segment per byte would take a millisecond each)
    let cuts = if data.len() > 400 {
        let k = rng.below(7) as usize;
        let mut v: Vec<usize> = (0..k).map(|_| rng.range(1, data.len() as u64 - 1) as usize).collect();
        v.sort();
        v.dedup();
        v
    } else {
        random_cuts(rng, data.len())
    };
    cut(data, &cuts).into_iter().filter(|s| !s.is_empty()).map(|s| d(&s)).collect()
}

const OK2: &[u8] = b"HTTP/1.1 200 OK\r\ncontent-length: 2\r\n\r\nok";

struct Gen {
    sc: Scenario,
    tags: Vec<String>,
}

fn getr(a: usize, head: bool, read: bool) -> Req {
    Req { a, head, read, close: 0 }
}
/// a request sent non-persistent (1 = force_close, 2 = HTTP/1.0)
fn getc(read: bool, close: u8) -> Req {
    Req { a: 0, head: false, read, close }
}

/// spare connection scripts: plain keep-alive `ok` responses
fn spare(n: usize) -> Vec<Ev> {
    (0..n).flat_map(|_| vec![Ev::W, d(OK2)]).collect()
}

/// family A: the connection is closed after `c` bytes of head+body
fn gen_close_at(rng: &mut Rng, fr: Fr, v11: bool, body: &[u8], c: usize, tag: &str) -> Gen {
    let (h, w) = wire(rng, 200, v11, &fr, body, None);
    let mut all = h.clone();
    all.extend_from_slice(&w);
    let c = c.min(all.len());
    let mut evs = vec![Ev::W];
    evs.extend(segs(rng, &all[..c]));
    evs.push(Ev::C);
    Gen {
        sc: Scenario { limit: 2, conc: false, reqs: vec![getr(0, false, true), getr(0, false, true)], conns: vec![vec![evs, spare(2), spare(2)]] },
        tags: vec![format!("family:close-sweep-{tag}"), format!("close:{}", if c < h.len() { "in-head" } else if c < all.len() { "in-body" } else { "at-end" })],
    }
}

fn rand_resp(rng: &mut Rng, maxb: usize) -> (Vec<u8>, &'static str) {
    match rng.below(10) {
        0 => {
            let (h, _) = wire(rng, 204, true, &Fr::NoLen, b"", None);
            (h, "204")
        }
        1 => {
            let (h, _) = wire(rng, 304, true, &Fr::NoLen, b"", None);
            (h, "304")
        }
        2 => {
            let (h, w) = wire(rng, 200, true, &Fr::Cl, b"", None);
            ([h, w].concat(), "cl0")
        }
        3 | 4 | 5 => {
            let b = rand_body(rng, maxb);
            let (h, w) = wire(rng, 200, true, &Fr::Chunked, &b, None);
            ([h, w].concat(), "chunked")
        }
        _ => {
            let b = rand_body(rng, maxb);
            let st = *rng.pick(&[200u16, 404]);
            let ka = if rng.chance(1, 6) { Some("keep-alive") } else { None };
            let (h, w) = wire(rng, st, true, &Fr::Cl, &b, ka);
            ([h, w].concat(), "cl")
        }
    }
}

/// family B/D: sequences on one authority: read / drop / HEAD, keep-alive and closing responses
fn gen_sequence(rng: &mut Rng, maxb: usize) -> Gen {
    let n = rng.range(2, 5) as usize;
    let mut tags = vec!["family:sequence".to_string()];
    let mut reqs = vec![];
    for _ in 0..n {
        let r = match rng.below(10) {
            0 | 1 => getr(0, false, false),
            2 => getr(0, true, true),
            _ => getr(0, false, true),
        };
        tags.push(format!("req:{}", if r.head { "head" } else if r.read { "read" } else { "drop" }));
        reqs.push(r);
    }
    let any_head = reqs.iter().any(|r| r.head);
    let mut conns = vec![];
    for _ in 0..n + 1 {
        let mut evs = vec![];
        for _ in 0..n {
            evs.push(Ev::W);
            // a HEAD request must not be answered with body bytes: keep head-bearing scenarios body-less
            let (bytes, t) = if any_head {
                let (h, _) = wire(rng, 200, true, &Fr::Cl, b"", None);
                (h, "cl0")
            } else {
                rand_resp(rng, maxb)
            };
            tags.push(format!("resp:{t}"));
            match rng.below(12) {
                0 if !any_head => {
                    // response announcing close, then closing
                    let b = rand_body(rng, maxb);
                    let (h, w) = wire(rng, 200, true, &Fr::Cl, &b, Some("close"));
                    evs.extend(segs(rng, &[h, w].concat()));
                    evs.push(Ev::C);
                    tags.push("resp:conn-close".into());
                    break;
                }
                1 if !any_head => {
                    // HTTP/1.0 read-to-close
                    let b = rand_body(rng, maxb);
                    let (h, w) = wire(rng, 200, false, &Fr::NoLen, &b, None);
                    evs.extend(segs(rng, &[h, w].concat()));
                    evs.push(Ev::C);
                    tags.push("resp:http10-to-close".into());
                    break;
                }
                2 => {
                    // complete keep-alive response, then the server closes the idle connection
                    evs.extend(segs(rng, &bytes));
                    evs.push(Ev::C);
                    tags.push("resp:then-server-close".into());
                    break;
                }
                _ => evs.extend(segs(rng, &bytes)),
            }
        }
        conns.push(evs);
    }
    Gen { sc: Scenario { limit: rng.range(1, 3) as usize, conc: false, reqs, conns: vec![conns] }, tags }
}

/// family J: a request sent NON-persistent (force_close = `Connection: close`, or HTTP/1.0) whose
/// answer claims `connection: keep-alive` (or says nothing) and whose server keeps the socket open,
/// followed by further requests to the same authority: they must arrive on a NEW socket (the
/// codec takes only a downgrade from the peer; release needs a persistent REQUEST)
fn gen_nonpersistent(rng: &mut Rng) -> Gen {
    let mut tags = vec!["family:nonpersistent".to_string()];
    let n = rng.range(2, 4) as usize;
    let pos = if n > 2 && rng.chance(1, 2) { 1 } else { 0 };
    let close = if rng.chance(2, 3) { 1u8 } else { 2 };
    tags.push(format!("reqconn:{}", if close == 1 { "force-close" } else { "http10" }));
    tags.push(format!("reqconn:at-{pos}"));
    let mut reqs = vec![];
    let mut evs = vec![];
    for i in 0..n {
        evs.push(Ev::W);
        if i != pos {
            reqs.push(getr(0, false, true));
            evs.push(d(OK2));
            continue;
        }
        let peer = match rng.below(5) {
            0 => None,
            1 => Some("Keep-Alive"),
            _ => Some("keep-alive"),
        };
        tags.push(format!("peer:{}", if peer.is_some() { "keep-alive" } else { "silent" }));
        let (bytes, t, bodyless): (Vec<u8>, &str, bool) = match rng.below(6) {
            0 => {
                let (h, w) = wire(rng, 200, true, &Fr::Cl, b"", peer);
                ([h, w].concat(), "cl0", true)
            }
            1 => {
                let (h, _) = wire(rng, 204, true, &Fr::NoLen, b"", peer);
                (h, "204", true)
            }
            2 => {
                let b = rand_body(rng, 40);
                let (h, w) = wire(rng, 200, false, &Fr::Cl, &b, peer);
                ([h, w].concat(), "http10-cl", false)
            }
            3 => {
                let b = rand_body(rng, 40);
                let (h, w) = wire(rng, 200, true, &Fr::Chunked, &b, peer);
                ([h, w].concat(), "chunked", false)
            }
            _ => {
                let b = rand_body(rng, 40);
                let (h, w) = wire(rng, 200, true, &Fr::Cl, &b, peer);
                ([h, w].concat(), "cl", false)
            }
        };
        tags.push(format!("resp:{t}"));
        // dropping the body early closes the connection anyway: only for body-less answers
        let read = !(bodyless && rng.chance(1, 3));
        reqs.push(getc(read, close));
        if rng.chance(1, 2) {
            evs.push(d(&bytes));
        } else {
            evs.extend(segs(rng, &bytes));
        }
    }
    // the server is ready to answer more on the same socket (it never closes)
    evs.extend(spare(2));
    Gen { sc: Scenario { limit: rng.range(1, 2) as usize, conc: false, reqs, conns: vec![vec![evs, spare(n), spare(n), spare(n)]] }, tags }
}

/// family C: interim responses before the final one
fn gen_interim(rng: &mut Rng) -> Gen {
    let mut tags = vec!["family:interim".to_string()];
    let body = rand_body(rng, 30);
    let fr = if rng.chance(1, 2) { Fr::Cl } else { Fr::Chunked };
    let (h, w) = wire(rng, 200, true, &fr, &body, None);
    let fin = [h, w].concat();
    let mut pre = vec![];
    let k = rng.range(1, 2);
    for _ in 0..k {
        let st = *rng.pick(&[100u16, 102, 103]);
        let (ih, _) = wire(rng, st, true, &Fr::NoLen, b"", None);
        pre.extend(ih);
        tags.push(format!("interim:{st}"));
    }
    let mut evs = vec![Ev::W];
    if rng.chance(1, 2) {
        // interim and final in one segment
        evs.push(d(&[pre, fin].concat()));
        tags.push("interim:same-segment".into());
    } else {
        // the final response is held back until a further request arrives
        evs.push(d(&pre));
        evs.push(Ev::G);
        evs.extend(segs(rng, &fin));
        tags.push("interim:gate".into());
    }
    evs.extend(spare(2));
    Gen { sc: Scenario { limit: 2, conc: false, reqs: vec![getr(0, false, true), getr(0, false, true), getr(0, false, true)], conns: vec![vec![evs, spare(3), spare(3)]] }, tags }
}

/// family H: bytes after the end of a response (same segment: dropped with the read buffer;
/// after a pause: found by the pool's check), and silent peers (time-out)
fn gen_extra_or_stall(rng: &mut Rng) -> Gen {
    let body = rand_body(rng, 20);
    let (h, w) = wire(rng, 200, true, &Fr::Cl, &body, None);
    let full = [h.clone(), w.clone()].concat();
    let (evs, tag) = match rng.below(6) {
        0 => (vec![Ev::W, d(&[full, b"EXTRA".to_vec()].concat()), Ev::W, d(OK2)], "extra:same-segment"),
        1 => (vec![Ev::W, d(&full), Ev::P, d(b"EXTRA"), Ev::W, d(OK2)], "extra:late-segment"),
        4 | 5 => {
            // an unsolicited COMPLETE response pushed after response 1 was read; request 2 follows
            // promptly and must not be answered with it
            let (sh, sw) = wire(rng, 200, true, &Fr::Cl, b"STALE", None);
            (vec![Ev::W, d(&full), Ev::P, d(&[sh, sw].concat()), Ev::W, d(OK2)], "extra:late-response")
        }
        2 => {
            let c = rng.range(1, full.len() as u64 - 1) as usize;
            (vec![Ev::W, d(&full[..c])], "stall:silent-peer")
        }
        _ => (vec![Ev::W, d(&full), Ev::P, Ev::C], "idle:server-closes-later"),
    };
    Gen { sc: Scenario { limit: 2, conc: false, reqs: vec![getr(0, false, true), getr(0, false, true)], conns: vec![vec![evs, spare(2)]] }, tags: vec!["family:extra-stall".into(), tag.into()] }
}

/// family E: two authorities (finding F11: idle connections of the other authority)
fn gen_two_auth(rng: &mut Rng) -> Gen {
    let n = rng.range(2, 5) as usize;
    let reqs: Vec<Req> = (0..n).map(|i| getr(if i == 0 { 0 } else if i == 1 { 1 } else { rng.below(2) as usize }, false, true)).collect();
    let conns = vec![vec![spare(n), spare(n)], vec![spare(n), spare(n)]];
    Gen { sc: Scenario { limit: rng.range(1, 2) as usize, conc: false, reqs, conns }, tags: vec!["family:two-authorities".into()] }
}

/// family F: more concurrent requests than permits, one authority
fn gen_conc(rng: &mut Rng) -> Gen {
    let limit = rng.range(1, 3) as usize;
    let n = limit + rng.range(1, 5) as usize;
    let reqs: Vec<Req> = (0..n).map(|_| getr(0, false, true)).collect();
    let conns = vec![(0..n).map(|_| spare(n)).collect()];
    Gen { sc: Scenario { limit, conc: true, reqs, conns }, tags: vec!["family:concurrent".into(), format!("conc:{}over{}", n, limit)] }
}

/// family I: a response carrying BOTH `Content-Length` and `Transfer-Encoding: chunked` (legal;
/// chunked wins): both header orders, whole or segmented, CL smaller / equal / larger than the
/// chunked stream
fn gen_cl_and_te(rng: &mut Rng, pick: u64) -> Gen {
    let body = rand_body(rng, 40);
    let (_, w) = wire(rng, 200, true, &Fr::Chunked, &body, None);
    let (cl, cl_tag) = match pick % 4 {
        0 => (body.len(), "cl=body-length"),
        1 => (w.len(), "cl=stream-length"),
        2 => (w.len().saturating_sub(rng.range(1, 6) as usize).max(1), "cl<stream"),
        _ => (w.len() + rng.range(1, 20) as usize, "cl>stream"),
    };
    let te_first = (pick / 4) % 2 == 0;
    let te = format!("{}: {}\r\n", *rng.pick(&["transfer-encoding", "Transfer-Encoding"]), *rng.pick(&["chunked", "Chunked"]));
    let clh = format!("{}: {}\r\n", *rng.pick(&["content-length", "Content-Length"]), cl);
    let head = format!("HTTP/1.1 200 OK\r\n{}{}\r\n", if te_first { &te } else { &clh }, if te_first { &clh } else { &te });
    let all = [head.into_bytes(), w].concat();
    let mut evs = vec![Ev::W];
    if (pick / 8) % 2 == 0 {
        evs.push(d(&all));
    } else {
        evs.extend(segs(rng, &all));
    }
    evs.push(Ev::W);
    evs.push(d(OK2));
    Gen {
        sc: Scenario { limit: 2, conc: false, reqs: vec![getr(0, false, true), getr(0, false, true)], conns: vec![vec![evs, spare(2), spare(2)]] },
        tags: vec!["family:cl-and-te".into(), format!("cl-and-te:{cl_tag}"), format!("cl-and-te:{}", if te_first { "te-first" } else { "cl-first" })],
    }
}

/// family G: malformed responses (single-point mutations of a valid one)
fn gen_malformed(rng: &mut Rng) -> Gen {
    let body = rand_body(rng, 24);
    let chunked = rng.chance(1, 2);
    let (h, w) = wire(rng, 200, true, if chunked { &Fr::Chunked } else { &Fr::Cl }, &body, None);
    let hs = String::from_utf8(h.clone()).unwrap();
    let (bytes, tag): (Vec<u8>, &str) = match rng.below(9) {
        0 => ([hs.replace("HTTP/1.1", "HTTP/2.0").into_bytes(), w].concat(), "bad-version"),
        1 => ([hs.replace(" 200 ", " 20 ").into_bytes(), w].concat(), "bad-status"),
        2 => ([hs.to_ascii_lowercase().replace("content-length: ", "content-length: x").replace("content-length:", "content-length: +").into_bytes(), w].concat(), "bad-cl"),
        3 => ([hs.replace("\r\n\r\n", "\r\ncontent-length: 3\r\ncontent-length: 3\r\n\r\n").into_bytes(), w].concat(), "dup-cl"),
        4 => ([hs.replace("\r\n\r\n", "\r\nno colon here\r\n\r\n").into_bytes(), w].concat(), "bad-header-line"),
        5 if chunked && !w.is_empty() => {
            let mut w2 = w.clone();
            w2[0] = b'z';
            ([h, w2].concat(), "bad-chunk-size")
        }
        6 if chunked && w.len() > 8 => {
            let mut w2 = w.clone();
            let p = w2.len() - 6; // the CR before the last-chunk line, or a data CRLF
            w2[p] = b'x';
            ([h, w2].concat(), "bad-chunk-crlf")
        }
        7 => ([hs.to_ascii_lowercase().replace("transfer-encoding: chunked", "transfer-encoding: gzip").into_bytes(), w].concat(), "te-gzip"),
        _ => ([hs.replace("\r\n\r\n", "\r\n\r\n\u{1}").into_bytes(), w].concat(), "stray-byte-after-head"),
    };
    let mut evs = vec![Ev::W];
    evs.extend(segs(rng, &bytes));
    if rng.chance(2, 3) {
        evs.push(Ev::C);
    } else {
        evs.push(Ev::W);
        evs.push(d(OK2));
    }
    Gen { sc: Scenario { limit: 2, conc: false, reqs: vec![getr(0, false, true), getr(0, false, true)], conns: vec![vec![evs, spare(2), spare(2)]] }, tags: vec!["family:malformed".into(), format!("malformed:{tag}")] }
}

// ------------------------------------------------------------------ main

fn emit_result(em: &mut Emitter, id: String, sc: &Scenario, tags: Vec<String>, r: Result<RunOut, String>, f9: bool, f17: bool) {
    let mut tags = tags;
    tags.push(format!("variant:f9={},f17={}", if f9 { "fixed" } else { "orig" }, if f17 { "fixed" } else { "orig" }));
    tags.sort();
    tags.dedup();
    let kc = known_class(sc).to_string();
    if !kc.is_empty() {
        tags.push(format!("class:{kc}"));
    }
    let nsegs: usize = sc.conns.iter().flatten().flatten().filter(|e| matches!(e, Ev::D { .. })).count();
    let nontrivial = sc.reqs.len() >= 2 || nsegs >= 2;
    match r {
        Ok(run) => {
            let v = v_run(sc, &run);
            let verdict = oracle(sc, &run);
            let show = format!(
                "[{}] open_after {:?} served {:?} peak {}",
                run.outcomes.iter().map(show_outcome).collect::<Vec<_>>().join("; "),
                run.open_after,
                run.served.iter().map(|a| a.iter().map(|c| c.iter().map(|x| x.0).collect::<Vec<_>>()).collect::<Vec<_>>()).collect::<Vec<_>>(),
                run.peak
            );
            em.emit(CaseOut {
                id,
                input: serde_json::to_value(sc).unwrap(),
                coq_case: Some(coq_case(sc, f9, f17)),
                expect: Some(v.coq()),
                sig: show.clone(),
                impl_show: show,
                oracle_ok: verdict.is_ok(),
                oracle_why: verdict.err().unwrap_or_default(),
                known_class: kc,
                nontrivial,
                tags,
            });
        }
        Err(p) => {
            em.panics += 1;
            em.emit(CaseOut {
                id,
                input: serde_json::to_value(sc).unwrap(),
                coq_case: None,
                expect: None,
                sig: format!("PANIC {p}"),
                impl_show: format!("PANIC {p}"),
                oracle_ok: false,
                oracle_why: format!("harness/implementation panicked: {p}"),
                known_class: kc,
                nontrivial,
                tags,
            });
        }
    }
}

/// scheduling + loop-back latency of this machine right now: median of 7 thread-spawn +
/// connect + one-byte round trips, in microseconds
fn measure_latency_us() -> u64 {
    let mut v: Vec<u64> = (0..7)
        .map(|_| {
            let t = std::time::Instant::now();
            let l = TcpListener::bind("127.0.0.1:0").unwrap();
            let port = l.local_addr().unwrap().port();
            let h = std::thread::spawn(move || {
                if let Ok((mut s, _)) = l.accept() {
                    let mut b = [0u8; 1];
                    let _ = s.read(&mut b);
                    let _ = s.write_all(&b);
                }
            });
            if let Ok(mut c) = TcpStream::connect(("127.0.0.1", port)) {
                let _ = c.write_all(b"x");
                let mut b = [0u8; 1];
                let _ = c.read(&mut b);
            }
            let _ = h.join();
            t.elapsed().as_micros() as u64
        })
        .collect();
    v.sort();
    v[v.len() / 2]
}

/// a time-out reported although the peer had nothing left to send (it closed, or completed the
/// response) or never even saw the request: an artefact of a starved machine, not behaviour
fn suspicious_timeout(sc: &Scenario, r: &RunOut) -> bool {
    for (k, o) in r.outcomes.iter().enumerate() {
        let timed_out = matches!(o, Outcome::SendErr("timeout") | Outcome::Resp { body: Some(Err("timeout")), .. });
        if !timed_out {
            continue;
        }
        let rq = &sc.reqs[k];
        let mut found = false;
        for (ci, conn) in r.served[rq.a].iter().enumerate() {
            for (pos, (id, blk)) in conn.iter().enumerate() {
                if *id != k {
                    continue;
                }
                found = true;
                let owner = *blk != usize::MAX && !conn[..pos].iter().any(|(_, b)| b == blk);
                if !owner {
                    continue;
                }
                let script = sc.conns[rq.a].get(ci).cloned().unwrap_or_default();
                if let Some((bytes, closed, gate)) = blocks_of(&script).get(*blk) {
                    let complete = matches!(ref_parse(bytes, *closed, rq.head), Intent::Complete { .. });
                    if (*closed || complete) && !*gate {
                        return true;
                    }
                }
            }
        }
        if !found {
            return true;
        }
    }
    false
}

/// which tree is this: is the F9 / F17 repair present? (two fixed witnesses, decided by behaviour)
fn detect_variant() -> (bool, bool) {
    let f9 = {
        let sc = Scenario { limit: 1, conc: false, reqs: vec![getr(0, false, true)], conns: vec![vec![vec![Ev::W, d(b"HTTP/1.1 200 OK\r\ncontent-length: 10\r\n\r\nhello"), Ev::C]]] };
        let r = run_scenario(&sc);
        !matches!(&r.outcomes[0], Outcome::Resp { body: Some(Ok(_)), .. })
    };
    let f17 = {
        let sc = Scenario { limit: 1, conc: false, reqs: vec![getr(0, false, true)], conns: vec![vec![vec![Ev::W, d(b"HTTP/1.1 103 Early Hints\r\n\r\nHTTP/1.1 200 OK\r\ncontent-length: 2\r\n\r\nok")]]] };
        let r = run_scenario(&sc);
        matches!(&r.outcomes[0], Outcome::Resp { status: 200, .. })
    };
    (f9, f17)
}

/// the witnesses of F9 / F17 / F11 and a few reference behaviours, printed (C17_PROBE=1)
fn probe() {
    let show = |name: &str, sc: Scenario| {
        let r = run_scenario(&sc);
        println!(
            "{name}: [{}] open_after {:?} served {:?} peak {} | oracle: {:?} | class {:?}",
            r.outcomes.iter().map(show_outcome).collect::<Vec<_>>().join("; "),
            r.open_after,
            r.served,
            r.peak,
            oracle(&sc, &r),
            known_class(&sc)
        );
    };
    let g = |a| getr(a, false, true);
    show("F9-length", Scenario { limit: 4, conc: false, reqs: vec![g(0), g(0)], conns: vec![vec![vec![Ev::W, d(b"HTTP/1.1 200 OK\r\ncontent-length: 10\r\n\r\nhello"), Ev::C], spare(1)]] });
    show("F9-chunked", Scenario { limit: 4, conc: false, reqs: vec![g(0)], conns: vec![vec![vec![Ev::W, d(b"HTTP/1.1 200 OK\r\ntransfer-encoding: chunked\r\n\r\n5\r\nhel"), Ev::C]]] });
    show("http10-eof", Scenario { limit: 4, conc: false, reqs: vec![g(0)], conns: vec![vec![vec![Ev::W, d(b"HTTP/1.0 200 OK\r\n\r\nhello"), d(b" world"), Ev::C]]] });
    show(
        "F17-gate",
        Scenario { limit: 4, conc: false, reqs: vec![g(0), g(0)], conns: vec![vec![vec![Ev::W, d(b"HTTP/1.1 103 Early Hints\r\nlink: </x>\r\n\r\n"), Ev::G, d(b"HTTP/1.1 200 OK\r\ncontent-length: 5\r\n\r\nFIRST"), Ev::W, d(b"HTTP/1.1 200 OK\r\ncontent-length: 6\r\n\r\nSECOND")], spare(2)]] },
    );
    show("F17-same-segment", Scenario { limit: 4, conc: false, reqs: vec![g(0), g(0)], conns: vec![vec![vec![Ev::W, d(b"HTTP/1.1 100 Continue\r\n\r\nHTTP/1.1 200 OK\r\ncontent-length: 5\r\n\r\nFIRST"), Ev::W, d(OK2)], spare(2)]] });
    show("F11", Scenario { limit: 1, conc: false, reqs: vec![g(0), g(1), g(0)], conns: vec![vec![spare(2)], vec![spare(2)]] });
    show("304-with-cl", Scenario { limit: 2, conc: false, reqs: vec![g(0)], conns: vec![vec![vec![Ev::W, d(b"HTTP/1.1 304 Not Modified\r\ncontent-length: 4\r\n\r\n")]]] });
    show("http11-no-length-with-body", Scenario { limit: 2, conc: false, reqs: vec![g(0)], conns: vec![vec![vec![Ev::W, d(b"HTTP/1.1 200 OK\r\n\r\nhello"), Ev::C]]] });
}

fn main() {
    let args = parse_args();
    if std::env::var("C17_PROBE").is_ok() {
        probe();
        return;
    }
    if let Ok(p) = std::env::var("C17_SCALE_PCT") {
        SCALE_PCT.store(p.parse().expect("C17_SCALE_PCT"), Ordering::SeqCst);
    } else {
        // idle machine: ~150 us; the unit grows with the measured latency, between 1x and 12x
        let us = measure_latency_us();
        // ... and with the run-queue length per core (a starved machine can still have a fast
        // loop-back path at the moment of the measurement)
        let load: f64 = std::fs::read_to_string("/proc/loadavg").ok().and_then(|t| t.split_whitespace().next().and_then(|x| x.parse().ok())).unwrap_or(0.0);
        let cores = std::thread::available_parallelism().map(|n| n.get()).unwrap_or(1) as f64;
        let by_load = (150.0 * load / cores) as usize;
        SCALE_PCT.store(((us as usize) * 100 / 400).max(by_load).clamp(100, 1200), Ordering::SeqCst);
    }
    eprintln!("c17: time unit {}%", SCALE_PCT.load(Ordering::SeqCst));
    let (f9, f17) = detect_variant();
    let mut work: Vec<(String, Scenario, Vec<String>)> = vec![];
    for (id, j) in args.fixed_inputs() {
        let sc: Scenario = serde_json::from_value(j).expect("case");
        work.push((id, sc, vec!["family:corpus".into()]));
    }
    if args.case.is_none() {
        let mut rng = Rng::new(args.seed);
        let thorough = args.thorough();
        // exhaustive: every close offset of head and body, three framings
        let mut idx = 0;
        let sweeps: Vec<(Fr, bool, &[u8], &str)> = vec![
            (Fr::Cl, true, b"hello world", "cl"),
            (Fr::Chunked, true, b"hello, chunked world", "chunked"),
            (Fr::NoLen, false, b"to the end", "http10"),
        ];
        for (fr, v11, body, tag) in &sweeps {
            // the length of the wire form varies a little with the random header decoration
            for c in 0..140usize {
                let mut r = rng.fork();
                let g = gen_close_at(&mut r, fr.clone(), *v11, body, c, tag);
                let total: usize = g.sc.conns[0][0].iter().map(|e| if let Ev::D { hex } = e { hex.len() / 2 } else { 0 }).sum();
                if c > total + 0 && c > 0 && total < c {
                    // past the end for this decoration: one at-end case is enough
                    if c > total + 1 {
                        continue;
                    }
                }
                work.push((format!("sweep-{idx}"), g.sc, g.tags));
                idx += 1;
            }
        }
        let n = args.n.unwrap_or(if thorough { 1800 } else { 240 });
        for i in 0..n {
            let mut r = rng.fork();
            let maxb = if thorough && i % 10 == 0 { 20000 } else { 300 };
            let g = match r.below(100) {
                0..=37 => gen_sequence(&mut r, maxb),
                38..=44 => gen_nonpersistent(&mut r),
                45..=56 => gen_interim(&mut r),
                57..=64 => gen_extra_or_stall(&mut r),
                65..=71 => gen_two_auth(&mut r),
                72..=79 => gen_conc(&mut r),
                80..=87 => gen_cl_and_te(&mut r, i as u64),
                _ => gen_malformed(&mut r),
            };
            work.push((format!("gen-{i}"), g.sc, g.tags));
        }
    }
    // run the scenarios on a pool of worker threads, emit in input order
    let jobs: usize = std::env::var("C17_JOBS").ok().and_then(|s| s.parse().ok()).unwrap_or(8);
    let next = Arc::new(AtomicUsize::new(0));
    let work = Arc::new(work);
    let results: Arc<Mutex<Vec<Option<Result<RunOut, String>>>>> = Arc::new(Mutex::new((0..work.len()).map(|_| None).collect()));
    let hs: Vec<_> = (0..jobs)
        .map(|_| {
            let (next, work, results) = (next.clone(), work.clone(), results.clone());
            std::thread::spawn(move || loop {
                let i = next.fetch_add(1, Ordering::SeqCst);
                if i >= work.len() {
                    break;
                }
                let sc = work[i].1.clone();
                let mut r = catch(|| run_scenario(&sc));
                // a starved machine produces time-outs that are no behaviour of the client: retry
                for _ in 0..3 {
                    match &r {
                        Ok(run) if suspicious_timeout(&sc, run) => {
                            // the time unit is too small for this machine right now: double it
                            let cur = SCALE_PCT.load(Ordering::SeqCst);
                            SCALE_PCT.fetch_max((cur * 2).min(1200), Ordering::SeqCst);
                            r = catch(|| run_scenario(&sc))
                        }
                        _ => break,
                    }
                }
                results.lock().unwrap()[i] = Some(r);
            })
        })
        .collect();
    for h in hs {
        let _ = h.join();
    }
    let mut em = Emitter::default();
    let mut results = results.lock().unwrap();
    for (i, (id, sc, tags)) in work.iter().enumerate() {
        let r = results[i].take().unwrap_or(Err("not run".into()));
        emit_result(&mut em, id.clone(), sc, tags.clone(), r, f9, f17);
    }
    em.finish();
}
