//! C17 — the HTTP client delivers a response body completely or with an error, never cut; a
//! connection goes back to the pool only after the response was read to its end; open
//! connections never exceed `Connector::limit`.
//!
//! The real `awc::Client` talks to a scripted raw TCP server on loop-back (std threads). A
//! scenario fixes, per authority and per accepted connection, the exact event list the server
//! plays: `W` wait for a request, `D` write these bytes (own TCP segment), `C` close (half-close,
//! then wait for the client's FIN). The server records which connection received which request
//! and how many sockets the client holds. Protocol: see the `vh` crate docs.

use std::{
    io::{Read, Write},
    net::{Shutdown, TcpListener, TcpStream},
    sync::{
        atomic::{AtomicBool, AtomicUsize, Ordering},
        Arc, Mutex,
    },
    time::{Duration, Instant},
};

use serde::{Deserialize, Serialize};
use vh::*;

// ------------------------------------------------------------------ scenario

#[derive(Serialize, Deserialize, Clone, Debug, PartialEq)]
#[serde(tag = "ev")]
enum Ev {
    /// wait for (and consume) one request
    W,
    /// write these bytes as one segment
    D { hex: String },
    /// close the connection (server side)
    C,
}

#[derive(Serialize, Deserialize, Clone, Debug)]
struct Req {
    /// authority index (0 or 1)
    a: usize,
    /// HEAD instead of GET
    head: bool,
    /// read the whole body (`false`: drop the response right after the head)
    read: bool,
}

#[derive(Serialize, Deserialize, Clone, Debug)]
struct Scenario {
    limit: usize,
    /// all requests at once (true) or one after the other (false)
    conc: bool,
    reqs: Vec<Req>,
    /// conns[authority][k] = events of the k-th connection accepted for that authority
    conns: Vec<Vec<Vec<Ev>>>,
    /// what the scenario's author expects of a correct client, per request:
    /// (final status, body) of the response the server meant for it; None = no expectation
    #[serde(default)]
    want: Vec<Option<(u16, String)>>,
}

fn d(b: &[u8]) -> Ev {
    Ev::D { hex: hex(b) }
}

// ------------------------------------------------------------------ scripted server

const TICK: Duration = Duration::from_millis(4);
const SEG_GAP: Duration = Duration::from_millis(2);

#[derive(Default)]
struct ServerLog {
    /// per authority: per accepted connection: request ids received (in order)
    served: Mutex<Vec<Vec<Vec<usize>>>>,
    open: AtomicUsize,
    peak: AtomicUsize,
    accepted: AtomicUsize,
}

fn find_crlfcrlf(b: &[u8]) -> Option<usize> {
    b.windows(4).position(|w| w == b"\r\n\r\n").map(|p| p + 4)
}

/// request id = number after "/r" in the request line
fn req_id(head: &[u8]) -> usize {
    let s = String::from_utf8_lossy(head);
    s.split("/r").nth(1).map(|t| t.chars().take_while(|c| c.is_ascii_digit()).collect::<String>()).and_then(|t| t.parse().ok()).unwrap_or(9999)
}

fn handle_conn(mut s: TcpStream, evs: Vec<Ev>, auth: usize, idx: usize, log: Arc<ServerLog>, stop: Arc<AtomicBool>) {
    let _ = s.set_nodelay(true);
    let _ = s.set_read_timeout(Some(TICK));
    let mut inbuf: Vec<u8> = vec![];
    let mut client_gone = false;
    let mut tmp = [0u8; 4096];
    // returns false when the client closed / scenario stopped
    let mut wait_request = |s: &mut TcpStream, inbuf: &mut Vec<u8>, client_gone: &mut bool| -> bool {
        loop {
            if let Some(n) = find_crlfcrlf(inbuf) {
                let head: Vec<u8> = inbuf.drain(..n).collect();
                log.served.lock().unwrap()[auth][idx].push(req_id(&head));
                return true;
            }
            if stop.load(Ordering::SeqCst) {
                return false;
            }
            match s.read(&mut tmp) {
                Ok(0) => {
                    *client_gone = true;
                    return false;
                }
                Ok(n) => inbuf.extend_from_slice(&tmp[..n]),
                Err(e) if matches!(e.kind(), std::io::ErrorKind::WouldBlock | std::io::ErrorKind::TimedOut) => {}
                Err(_) => {
                    *client_gone = true;
                    return false;
                }
            }
        }
    };
    let mut alive = true;
    for ev in &evs {
        match ev {
            Ev::W => {
                if !wait_request(&mut s, &mut inbuf, &mut client_gone) {
                    alive = false;
                    break;
                }
            }
            Ev::D { hex } => {
                let b = unhex(hex);
                if s.write_all(&b).and_then(|_| s.flush()).is_err() {
                    break;
                }
                std::thread::sleep(SEG_GAP);
            }
            Ev::C => {
                let _ = s.shutdown(Shutdown::Write);
                break;
            }
        }
    }
    // drain: log further requests, wait for the client's FIN
    while alive && !client_gone {
        if !wait_request(&mut s, &mut inbuf, &mut client_gone) {
            break;
        }
    }
    // wait for FIN if the scenario is still running
    while !client_gone && !stop.load(Ordering::SeqCst) {
        match s.read(&mut tmp) {
            Ok(0) => client_gone = true,
            Ok(_) => {}
            Err(e) if matches!(e.kind(), std::io::ErrorKind::WouldBlock | std::io::ErrorKind::TimedOut) => {}
            Err(_) => client_gone = true,
        }
    }
    log.open.fetch_sub(1, Ordering::SeqCst);
}

struct Server {
    ports: Vec<u16>,
    log: Arc<ServerLog>,
    stop: Arc<AtomicBool>,
    threads: Vec<std::thread::JoinHandle<()>>,
}

fn start_server(sc: &Scenario) -> Server {
    let log = Arc::new(ServerLog::default());
    let stop = Arc::new(AtomicBool::new(false));
    let mut ports = vec![];
    let mut threads = vec![];
    *log.served.lock().unwrap() = sc.conns.iter().map(|_| vec![]).collect();
    for (auth, scripts) in sc.conns.iter().enumerate() {
        let l = TcpListener::bind("127.0.0.1:0").expect("bind");
        l.set_nonblocking(true).unwrap();
        ports.push(l.local_addr().unwrap().port());
        let scripts = scripts.clone();
        let (log, stop) = (log.clone(), stop.clone());
        threads.push(std::thread::spawn(move || {
            let mut idx = 0usize;
            let mut hs = vec![];
            while !stop.load(Ordering::SeqCst) {
                match l.accept() {
                    Ok((s, _)) => {
                        s.set_nonblocking(false).unwrap();
                        let o = log.open.fetch_add(1, Ordering::SeqCst) + 1;
                        log.peak.fetch_max(o, Ordering::SeqCst);
                        log.accepted.fetch_add(1, Ordering::SeqCst);
                        log.served.lock().unwrap()[auth].push(vec![]);
                        let evs = scripts.get(idx).cloned().unwrap_or_default();
                        let (log2, stop2) = (log.clone(), stop.clone());
                        let k = idx;
                        hs.push(std::thread::spawn(move || handle_conn(s, evs, auth, k, log2, stop2)));
                        idx += 1;
                    }
                    Err(_) => std::thread::sleep(Duration::from_millis(1)),
                }
            }
            for h in hs {
                let _ = h.join();
            }
        }));
    }
    Server { ports, log, stop, threads }
}

// ------------------------------------------------------------------ client side

const CLIENT_TIMEOUT: Duration = Duration::from_millis(350);
const SETTLE: Duration = Duration::from_millis(70);

#[derive(Clone, Debug, PartialEq)]
enum Outcome {
    /// error before a response head was returned
    SendErr(&'static str),
    /// head returned; body result (None = response dropped unread)
    Resp { status: u16, body: Option<Result<Vec<u8>, &'static str>> },
}

fn class_send(e: &awc::error::SendRequestError) -> &'static str {
    use awc::error::{ConnectError, SendRequestError as E};
    match e {
        E::Connect(ConnectError::Disconnected) => "disconnected",
        E::Connect(ConnectError::Timeout) => "timeout",
        E::Connect(_) => "connect",
        E::Timeout => "timeout",
        E::Response(_) => "response",
        E::Send(_) => "io",
        _ => "other",
    }
}
fn class_payload(e: &awc::error::PayloadError) -> &'static str {
    use awc::error::PayloadError as P;
    match e {
        P::Incomplete(_) => "incomplete",
        P::Io(e) if e.kind() == std::io::ErrorKind::TimedOut => "timeout",
        P::Io(_) => "io",
        P::Overflow => "overflow",
        P::UnknownLength => "unknown-length",
        P::EncodingCorrupted => "encoding",
        _ => "other",
    }
}

struct RunOut {
    outcomes: Vec<Outcome>,
    /// sockets held by the client after each request settled (sequential mode only)
    open_after: Vec<usize>,
    served: Vec<Vec<Vec<usize>>>,
    peak: usize,
    accepted: usize,
}

async fn one_request(client: &awc::Client, port: u16, k: usize, r: &Req) -> Outcome {
    let url = format!("http://127.0.0.1:{}/r{}", port, k);
    let rq = if r.head { client.head(url) } else { client.get(url) };
    match rq.send().await {
        Err(e) => Outcome::SendErr(class_send(&e)),
        Ok(resp) => {
            let status = resp.status().as_u16();
            if r.read {
                let mut resp = resp.timeout(CLIENT_TIMEOUT);
                let b = resp.body().limit(1 << 22).await;
                drop(resp);
                Outcome::Resp { status, body: Some(b.map(|b| b.to_vec()).map_err(|e| class_payload(&e))) }
            } else {
                drop(resp);
                Outcome::Resp { status, body: None }
            }
        }
    }
}

fn run_scenario(sc: &Scenario) -> RunOut {
    let srv = start_server(sc);
    let ports = srv.ports.clone();
    let log = srv.log.clone();
    let sc2 = sc.clone();
    let (outcomes, open_after) = std::thread::spawn(move || {
        vh::exec::run_local(async move {
            let client = awc::Client::builder()
                .connector(awc::Connector::new().limit(sc2.limit).timeout(Duration::from_millis(1000)))
                .timeout(CLIENT_TIMEOUT)
                .finish();
            let mut outcomes = vec![];
            let mut open_after = vec![];
            if sc2.conc {
                let futs: Vec<_> = sc2.reqs.iter().enumerate().map(|(k, r)| one_request(&client, ports[r.a], k, r)).collect();
                outcomes = futures_util::future::join_all(futs).await;
                actix_rt::time::sleep(SETTLE).await;
                open_after.push(log.open.load(Ordering::SeqCst));
            } else {
                for (k, r) in sc2.reqs.iter().enumerate() {
                    outcomes.push(one_request(&client, ports[r.a], k, r).await);
                    actix_rt::time::sleep(SETTLE).await;
                    open_after.push(log.open.load(Ordering::SeqCst));
                }
            }
            drop(client);
            (outcomes, open_after)
        })
    })
    .join()
    .expect("client thread");
    srv.stop.store(true, Ordering::SeqCst);
    for t in srv.threads {
        let _ = t.join();
    }
    let served = srv.log.served.lock().unwrap().clone();
    RunOut { outcomes, open_after, served, peak: srv.log.peak.load(Ordering::SeqCst), accepted: srv.log.accepted.load(Ordering::SeqCst) }
}

// ------------------------------------------------------------------ rendering

fn v_outcome(o: &Outcome) -> V {
    match o {
        Outcome::SendErr(c) => V::T("senderr", vec![V::h(c)]),
        Outcome::Resp { status, body } => V::T(
            "resp",
            vec![
                V::n(*status as u64),
                match body {
                    None => V::t0("dropped"),
                    Some(Ok(b)) => V::T("ok", vec![V::h(b)]),
                    Some(Err(c)) => V::T("err", vec![V::h(c)]),
                },
            ],
        ),
    }
}

fn show_outcome(o: &Outcome) -> String {
    match o {
        Outcome::SendErr(c) => format!("SendErr({c})"),
        Outcome::Resp { status, body: None } => format!("{status} <dropped>"),
        Outcome::Resp { status, body: Some(Ok(b)) } => format!("{status} Ok({:?})", String::from_utf8_lossy(b)),
        Outcome::Resp { status, body: Some(Err(c)) } => format!("{status} Err({c})"),
    }
}

fn main() {
    let args = parse_args();
    if std::env::var("C17_PROBE").is_ok() {
        probe();
        return;
    }
    let _ = args;
}

// ------------------------------------------------------------------ probes (re-establish F9 / F17 / F11)

fn show_run(name: &str, sc: &Scenario) {
    let t = Instant::now();
    let r = run_scenario(sc);
    println!(
        "{name}: outcomes [{}] open_after {:?} served {:?} peak {} accepted {} ({} ms)",
        r.outcomes.iter().map(show_outcome).collect::<Vec<_>>().join("; "),
        r.open_after,
        r.served,
        r.peak,
        r.accepted,
        t.elapsed().as_millis()
    );
}

fn get(a: usize) -> Req {
    Req { a, head: false, read: true }
}

fn probe() {
    let ok2 = b"HTTP/1.1 200 OK\r\ncontent-length: 2\r\n\r\nok";
    // F9: 5 of 10 declared bytes then close
    show_run(
        "F9-length",
        &Scenario { limit: 4, conc: false, reqs: vec![get(0), get(0)], want: vec![], conns: vec![vec![vec![Ev::W, d(b"HTTP/1.1 200 OK\r\ncontent-length: 10\r\n\r\nhello"), Ev::C], vec![Ev::W, d(ok2)]]] },
    );
    show_run(
        "F9-chunked",
        &Scenario { limit: 4, conc: false, reqs: vec![get(0)], want: vec![], conns: vec![vec![vec![Ev::W, d(b"HTTP/1.1 200 OK\r\ntransfer-encoding: chunked\r\n\r\n5\r\nhel"), Ev::C]]] },
    );
    show_run(
        "http10-eof",
        &Scenario { limit: 4, conc: false, reqs: vec![get(0)], want: vec![], conns: vec![vec![vec![Ev::W, d(b"HTTP/1.0 200 OK\r\n\r\nhello"), d(b" world"), Ev::C]]] },
    );
    // F17: interim then (on the next request) the real response
    show_run(
        "F17-gate",
        &Scenario {
            limit: 4,
            conc: false,
            reqs: vec![get(0), get(0)],
            want: vec![],
            conns: vec![vec![
                vec![Ev::W, d(b"HTTP/1.1 103 Early Hints\r\nlink: </x>\r\n\r\n"), Ev::W, d(b"HTTP/1.1 200 OK\r\ncontent-length: 5\r\n\r\nFIRST"), Ev::W, d(b"HTTP/1.1 200 OK\r\ncontent-length: 6\r\n\r\nSECOND")],
                vec![Ev::W, d(b"HTTP/1.1 200 OK\r\ncontent-length: 6\r\n\r\nSECOND")],
            ]],
        },
    );
    show_run(
        "F17-inline",
        &Scenario {
            limit: 4,
            conc: false,
            reqs: vec![get(0), get(0)],
            want: vec![],
            conns: vec![vec![
                vec![Ev::W, d(b"HTTP/1.1 100 Continue\r\n\r\n"), d(b"HTTP/1.1 200 OK\r\ncontent-length: 5\r\n\r\nFIRST"), Ev::W, d(b"HTTP/1.1 200 OK\r\ncontent-length: 6\r\n\r\nSECOND")],
                vec![Ev::W, d(b"HTTP/1.1 200 OK\r\ncontent-length: 6\r\n\r\nSECOND")],
            ]],
        },
    );
    // F11: limit 1, two authorities
    show_run(
        "F11",
        &Scenario { limit: 1, conc: false, reqs: vec![get(0), get(1), get(0)], want: vec![], conns: vec![vec![vec![Ev::W, d(ok2), Ev::W, d(ok2)]], vec![vec![Ev::W, d(ok2)]]] },
    );
    // reuse, early drop, 204/304 with content-length, leftover bytes
    show_run(
        "reuse+drop",
        &Scenario {
            limit: 2,
            conc: false,
            reqs: vec![get(0), Req { a: 0, head: false, read: false }, get(0)],
            want: vec![],
            conns: vec![vec![vec![Ev::W, d(ok2), Ev::W, d(b"HTTP/1.1 200 OK\r\ncontent-length: 4\r\n\r\nabcd")], vec![Ev::W, d(ok2)]]],
        },
    );
    show_run(
        "304-with-cl",
        &Scenario { limit: 2, conc: false, reqs: vec![get(0)], want: vec![], conns: vec![vec![vec![Ev::W, d(b"HTTP/1.1 304 Not Modified\r\ncontent-length: 4\r\n\r\n")]]] },
    );
    show_run(
        "extra-same-seg",
        &Scenario { limit: 2, conc: false, reqs: vec![get(0), get(0)], want: vec![], conns: vec![vec![vec![Ev::W, d(b"HTTP/1.1 200 OK\r\ncontent-length: 2\r\n\r\nokEXTRA"), Ev::W, d(ok2)], vec![Ev::W, d(ok2)]]] },
    );
    show_run(
        "extra-late-seg",
        &Scenario { limit: 2, conc: false, reqs: vec![get(0), get(0)], want: vec![], conns: vec![vec![vec![Ev::W, d(ok2), d(b"EXTRA"), Ev::W, d(ok2)], vec![Ev::W, d(ok2)]]] },
    );
    show_run(
        "server-closes-idle",
        &Scenario { limit: 2, conc: false, reqs: vec![get(0), get(0)], want: vec![], conns: vec![vec![vec![Ev::W, d(ok2), Ev::C], vec![Ev::W, d(ok2)]]] },
    );
    show_run(
        "head-request",
        &Scenario { limit: 2, conc: false, reqs: vec![Req { a: 0, head: true, read: true }, get(0)], want: vec![], conns: vec![vec![vec![Ev::W, d(b"HTTP/1.1 200 OK\r\ncontent-length: 2\r\n\r\n"), Ev::W, d(ok2)]]] },
    );
    show_run(
        "conc-over-limit",
        &Scenario {
            limit: 2,
            conc: true,
            reqs: (0..6).map(|_| get(0)).collect(),
            want: vec![],
            conns: vec![(0..6).map(|_| (0..6).flat_map(|_| vec![Ev::W, d(ok2)]).collect()).collect()],
        },
    );
}
