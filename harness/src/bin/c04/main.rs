//! C04 — HTTP/1 connections always progress: no lost wake-ups, all bytes flushed.
//!
//! The real dispatcher runs over the scripted socket under a WAKE-DRIVEN executor: after the
//! environment change of a round the connection future is polled only while its waker has fired.
//! Oracle (implementation only): stall detector, byte-for-byte comparison of the accepted bytes with
//! a reference run on an always-ready socket, termination after peer EOF, busy-loop detector.
//! Correspondence: the wake-driven run of the poll composer (`CWake`) and the poll_flush model
//! against the accepted-byte sequence per write script (`CFlush`).

#[path = "../c05/scen.rs"]
#[allow(dead_code)]
mod scen;
mod leftover;

use scen::*;
use vh::*;

fn mask_dates(w: &[u8]) -> Vec<u8> {
    let mut out = w.to_vec();
    let pat = b"date: ";
    let mut i = 0;
    while i + pat.len() <= out.len() {
        if &out[i..i + pat.len()] == pat {
            let end = (i + pat.len() + 29).min(out.len());
            for b in &mut out[i + pat.len()..end] {
                *b = b'D';
            }
            i = end;
        } else {
            i += 1;
        }
    }
    out
}

fn modelled(c: &Case) -> bool {
    // a dropped payload is modelled only in drain mode: chunked body, Drop as the first action
    let drops_ok = c.handlers.iter().enumerate().all(|(i, h)| {
        !h.contains(&HAct::Drop) || matches!(c.items.get(i), Some(Item::Chunked { .. }))
    });
    !c.items.contains(&Item::Bad) && !c.rounds.iter().any(|r| r.rst || r.wr.iter().any(|w| matches!(w, W::Z | W::E)) || r.fl.iter().any(|f| matches!(f, F::E))) && drops_ok
}

/// F21 class (a predicate on the case): the first handler starts by waiting, at least
/// 1 + MAX_PIPELINED_MESSAGES requests have been delivered before some later round that delivers
/// more bytes, and that round comes before the handler is woken.
fn known_class(c: &Case) -> &'static str {
    let first_waits = c.handlers.first().map_or(false, |h| matches!(h.first(), Some(HAct::Wait)));
    if !first_waits {
        return "";
    }
    let mut ends = vec![];
    let mut off = 0;
    for it in &c.items {
        if let Some((_, t)) = item_lens(it) {
            off += t;
            ends.push(off);
        }
    }
    let mut delivered = 0usize;
    for r in &c.rounds {
        if r.hw {
            break;
        }
        let complete = ends.iter().filter(|e| **e <= delivered).count();
        if complete >= 1 + MAXP && r.add > 0 {
            return "queue-full-then-more-requests";
        }
        delivered += r.add;
    }
    ""
}

struct Verdict {
    ok: bool,
    why: String,
    stalled: bool,
}

fn complete_requests(c: &Case, taken: usize) -> usize {
    let mut off = 0;
    let mut n = 0;
    for it in &c.items {
        match item_lens(it) {
            Some((_, t)) => {
                off += t;
                if off <= taken {
                    n += 1;
                } else {
                    break;
                }
            }
            None => break,
        }
    }
    n
}

/// the environment has nothing further to deliver: every round after the case's own rounds only
/// offers an accepting socket and wakes pending handlers
fn with_drain(c: &Case) -> Case {
    let mut d = c.clone();
    let waits: usize = c
        .handlers
        .iter()
        .map(|h| {
            h.iter()
                .map(|a| match a {
                    HAct::Respond(RespBody::Sized(b)) | HAct::Respond(RespBody::Stream(b)) => b.iter().filter(|x| matches!(x, BAct::Pend)).count(),
                    HAct::Pend | HAct::Wait => 1,
                    _ => 0,
                })
                .sum::<usize>()
        })
        .sum::<usize>()
        + c.rounds.iter().map(|r| r.fl.iter().filter(|f| matches!(f, F::P)).count()).sum::<usize>();
    for _ in 0..6 + waits {
        d.rounds.push(Round { add: 0, wr: vec![W::A(1 << 30); 4], hw: true, ..Default::default() });
    }
    d
}

fn reference(c: &Case) -> RunOut {
    let total: usize = c.rounds.iter().map(|r| r.add).sum();
    let mut r = c.clone();
    let eof = c.rounds.iter().any(|r| r.eof);
    r.rounds = vec![
        Round { add: total, wr: vec![W::A(1 << 30); 8], hw: true, ..Default::default() },
        Round { add: 0, eof, wr: vec![W::A(1 << 30); 8], hw: true, ..Default::default() },
    ];
    let acts: usize = c.handlers.iter().map(|h| h.len()).sum::<usize>() + 8;
    for _ in 0..acts {
        r.rounds.push(Round { add: 0, wr: vec![W::A(1 << 30); 8], hw: true, ..Default::default() });
    }
    run_case(&r, false)
}

fn oracle(c: &Case, out: &RunOut) -> Verdict {
    let last = out.snaps.last().cloned().unwrap_or_default();
    let mut why = String::new();
    let mut stalled = false;
    if out.livelock {
        why = "connection task keeps waking itself (more than 5000 polls in one round)".into();
    }
    let eof = c.rounds.iter().any(|r| r.eof);
    let rst = c.rounds.iter().any(|r| r.rst);
    let sock_err = c.rounds.iter().any(|r| r.wr.iter().any(|w| matches!(w, W::Z | W::E)) || r.fl.iter().any(|f| matches!(f, F::E)));
    let complete = complete_requests(c, last.taken);
    if why.is_empty() && !out.finished {
        // quiescent (the drain rounds have run, nothing woke the task) -- is there work left?
        let resp_done = last.responded;
        if last.started < complete && resp_done == last.started && last.produced == last.accepted {
            stalled = true;
            why = format!(
                "stall: {} complete requests taken from the socket, only {} dispatched, every dispatched one answered and flushed, no waker pending",
                complete, last.started
            );
        } else if out.offered > last.taken && resp_done == last.started && last.body_open == 0 && last.produced == last.accepted && !rst {
            stalled = true;
            why = format!(
                "stall: {} of {} request bytes still unread at the socket, every dispatched request answered and flushed, no handler running, no waker pending",
                out.offered - last.taken, out.offered
            );
        } else if last.produced > last.accepted && !sock_err {
            stalled = true;
            why = format!("stall: {} response bytes unflushed although the socket accepts", last.produced - last.accepted);
        } else if eof && resp_done == last.started && last.started == complete && last.body_open == 0 {
            why = "no termination: peer closed, every request answered and flushed, connection future still pending".into();
        }
    }
    // every response byte produced reaches the socket before the connection ends
    if why.is_empty() && out.finished && last.produced > last.accepted && !rst && !sock_err {
        why = format!(
            "connection ended (result {}) with {} of {} response bytes never written although the socket did not fail",
            last.res,
            last.produced - last.accepted,
            last.produced
        );
    }
    // byte-for-byte against the reference run
    if why.is_empty() && !c.handlers.iter().any(|h| h.contains(&HAct::Drop)) && !rst && !sock_err {
        let r = reference(c);
        let (a, b) = (mask_dates(&out.wire), mask_dates(&r.wire));
        if !(a.len() <= b.len() && a[..] == b[..a.len()]) {
            let p = a.iter().zip(b.iter()).position(|(x, y)| x != y).unwrap_or(a.len().min(b.len()));
            why = format!("accepted bytes differ from the reference run at offset {p} (test {} bytes, reference {} bytes)", a.len(), b.len());
        } else if out.finished && r.finished && !eof && a.len() < b.len() {
            // both connections ended on their own (error / close path): nothing may be missing
            why = format!(
                "connection ended after {} accepted bytes, the reference run on an always-ready socket wrote {} (responses truncated)",
                a.len(),
                b.len()
            );
        } else if !eof && a.len() < b.len() && last.started == complete && !out.finished && !stalled {
            // nothing to report here: handlers that never answer are part of the scripts
        }
    }
    Verdict { ok: why.is_empty(), why, stalled }
}

fn expect_wake(out: &RunOut, stalled: bool) -> V {
    V::T(
        "wake",
        vec![
            V::L(out
                .snaps
                .iter()
                .map(|s| {
                    V::T(
                        "w",
                        vec![V::us(s.polls), V::us(s.taken), V::us(s.started), V::us(s.delivered), V::us(s.pulled), V::us(s.accepted), V::n(s.res)],
                    )
                })
                .collect()),
            V::b(stalled),
            V::b(out.livelock),
            V::b(true),
        ],
    )
}

// ---------------------------------------------------------------- flush cases

#[derive(serde::Serialize, serde::Deserialize, Clone, Debug)]
struct FlushCase {
    n: usize,
    rounds: Vec<(Vec<W>, Vec<F>)>,
}

fn flush_case_as_case(f: &FlushCase) -> Case {
    let mut rounds = vec![];
    for (i, (w, fl)) in f.rounds.iter().enumerate() {
        rounds.push(Round { add: if i == 0 { 18 } else { 0 }, wr: w.clone(), fl: fl.clone(), ..Default::default() });
    }
    Case {
        kind: "flush".into(),
        wbs: 1 << 30,
        r: LW,
        items: vec![Item::Req { h: 18, b: None }],
        handlers: vec![vec![HAct::Respond(RespBody::Sized(vec![BAct::Chunk(f.n), BAct::End]))]],
        rounds,
    }
}

fn run_flush(id: String, f: FlushCase, em: &mut Emitter) {
    let case = flush_case_as_case(&f);
    prewarm(&case);
    let r = reference(&case);
    let resp = mask_dates(&r.wire);
    let out = run_case(&case, false);
    let wire = mask_dates(&out.wire);
    let mut items = vec![];
    let mut prev = 0usize;
    let mut why = String::new();
    for s in &out.snaps {
        let chunk = &wire[prev.min(wire.len())..s.accepted.min(wire.len())];
        prev = s.accepted;
        let code = if s.res >= 2 { 2 } else if s.wreg { 1 } else { 0 };
        items.push(V::T("f", vec![V::h(chunk), V::n(code as u8), V::b(s.wreg)]));
    }
    // oracle: accepted bytes are a prefix of the response, all of it when the buffer drained
    if !(wire.len() <= resp.len() && wire[..] == resp[..wire.len()]) {
        why = "bytes accepted by the socket are not a prefix of the response".into();
    }
    let zero_or_err = f.rounds.iter().any(|(w, fl)| w.iter().any(|x| matches!(x, W::Z | W::E)) || fl.iter().any(|x| matches!(x, F::E)));
    let last = out.snaps.last().cloned().unwrap_or_default();
    if why.is_empty() && !zero_or_err && last.res >= 2 {
        why = "connection failed without a socket error".into();
    }
    let model_rounds = coq_rle(&f.rounds, |(w, fl)| format!("({}, {})", coq_rle(w, coq_w), coq_rle(fl, coq_f)));
    em.emit(CaseOut {
        id,
        input: serde_json::json!({ "flush": f }),
        coq_case: Some(format!("(CFlush {} {})", coq_bytes(&resp), model_rounds)),
        expect: Some(V::T("flush", vec![V::L(items)]).coq()),
        impl_show: format!("response {} bytes, accepted {} in {} polls, res {}", resp.len(), wire.len(), out.snaps.len(), last.res),
        oracle_ok: why.is_empty(),
        oracle_why: why,
        known_class: String::new(),
        nontrivial: f.rounds.iter().any(|(w, _)| w.len() > 1 || w.iter().any(|x| matches!(x, W::A(k) if *k < resp.len()))),
        sig: format!("flush:{}:{}", f.n, f.rounds.len()),
        tags: vec!["kind:flush".into(), format!("res:{}", last.res), format!("partial:{}", wire.len() < resp.len())],
    });
}

fn run_wake(id: String, mut case: Case, fix21: bool, em: &mut Emitter) {
    normalize(&mut case);
    prewarm(&case);
    let full = with_drain(&case);
    let res = catch(|| run_case(&full, true));
    let input = serde_json::to_value(&case).unwrap();
    match res {
        Err(p) => {
            em.panics += 1;
            em.emit(CaseOut {
                id,
                input,
                impl_show: format!("PANIC {p}"),
                oracle_ok: false,
                oracle_why: format!("implementation panicked: {p}"),
                tags: vec![format!("kind:{}", case.kind), "panic".into()],
                ..Default::default()
            });
        }
        Ok(out) => {
            let v = oracle(&full, &out);
            let last = out.snaps.last().cloned().unwrap_or_default();
            let m = modelled(&case);
            let polls: usize = out.snaps.iter().map(|s| s.polls).sum();
            em.emit(CaseOut {
                id,
                input,
                coq_case: if m { Some(format!("(CWake {})", coq_case(&full, fix21))) } else { None },
                expect: if m { Some(expect_wake(&out, v.stalled).coq()) } else { None },
                impl_show: format!(
                    "rounds={} polls={} taken={} started={} accepted={} produced={} res={} stalled={} livelock={}",
                    out.snaps.len(), polls, last.taken, last.started, last.accepted, last.produced, last.res, v.stalled, out.livelock
                ),
                oracle_ok: v.ok,
                oracle_why: v.why,
                known_class: known_class(&case).into(),
                nontrivial: out.snaps.iter().any(|s| s.polls == 0) || out.snaps.iter().any(|s| s.polls > 1),
                sig: format!("{}:{}:{}:{}", case.kind, last.res, v.stalled, polls.min(40)),
                tags: vec![
                    format!("kind:{}", case.kind),
                    format!("res:{}", last.res),
                    format!("modelled:{m}"),
                    format!("stalled:{}", v.stalled),
                    format!("polls:{}", if polls < 10 { "<10" } else if polls < 50 { "<50" } else { ">=50" }),
                ],
            });
        }
    }
}

// ---------------------------------------------------------------- leftover + EOF cases

fn run_leftover(id: String, l: leftover::Leftover, fix21: bool, em: &mut Emitter) {
    let case = leftover::as_case(&l);
    prewarm(&case);
    let input = serde_json::json!({ "leftover": l });
    match catch(|| leftover::run(&l)) {
        Err(p) => {
            em.panics += 1;
            em.emit(CaseOut {
                id,
                input,
                impl_show: format!("PANIC {p}"),
                oracle_ok: false,
                oracle_why: format!("implementation panicked: {p}"),
                tags: vec!["kind:leftover-eof".into(), "panic".into()],
                ..Default::default()
            });
        }
        Ok(out) => {
            let why = leftover::oracle(&l, &out);
            let last = out.run.snaps.last().cloned().unwrap_or_default();
            let m = leftover::modelled(&l);
            let polls: usize = out.run.snaps.iter().map(|s| s.polls).sum();
            em.emit(CaseOut {
                id,
                input,
                coq_case: if m { Some(format!("(CWake {})", coq_case(&case, fix21))) } else { None },
                expect: if m { Some(expect_wake(&out.run, false).coq()) } else { None },
                impl_show: format!(
                    "rounds={} polls={} taken={} started={} responded={} accepted={} produced={} res={} fin={} advances={} timer_wakes={} reader={} writer={} handler={}",
                    out.run.snaps.len(), polls, last.taken, last.started, last.responded, last.accepted, last.produced, last.res,
                    out.fin_delivered, out.advances, out.timer_wakes, out.reader_reg, out.writer_reg, out.handler_reg
                ),
                oracle_ok: why.is_empty(),
                oracle_why: why,
                known_class: String::new(),
                nontrivial: l.fin_separate || !l.tail_with_requests || l.first_waits,
                sig: format!("leftover:{:?}:{}:{}:{}:{}:{}:{}", l.tail, l.n.min(3), l.tail_with_requests, l.fin_separate, l.no_fin, l.ka_secs, l.first_waits),
                tags: vec![
                    "kind:leftover-eof".into(),
                    format!("res:{}", last.res),
                    format!("modelled:{m}"),
                    format!("tail:{}", match l.tail { leftover::Tail::TruncHead(_) => "trunc-head", leftover::Tail::Crlf => "crlf", leftover::Tail::ChunkLine => "chunk-line" }),
                    format!("fin:{}", if l.no_fin { "never" } else if l.fin_separate { "own-poll" } else { "with-tail" }),
                    format!("ka:{}", if l.ka_secs == 0 { "os" } else { "timer" }),
                    format!("pending-handler:{}", l.first_waits),
                ],
            });
        }
    }
}

// ---------------------------------------------------------------- generator

fn wr(rng: &mut Rng) -> Vec<W> {
    match rng.below(6) {
        0 | 1 => vec![W::A(1 << 20); 3],
        2 => vec![],
        3 => vec![W::A(rng.range(1, 64) as usize)],
        4 => (0..rng.range(1, 5)).map(|_| W::A(rng.range(1, 3000) as usize)).collect(),
        _ => vec![W::A(rng.range(1, 300) as usize), W::P],
    }
}

fn body(rng: &mut Rng) -> RespBody {
    let mut acts = vec![];
    for _ in 0..rng.range(1, 4) {
        if rng.chance(1, 3) {
            acts.push(BAct::Pend);
        }
        acts.push(BAct::Chunk(*rng.pick(&[1usize, 10, 500, 5000])));
    }
    acts.push(BAct::End);
    if rng.chance(1, 2) {
        RespBody::Stream(acts)
    } else {
        RespBody::Sized(acts)
    }
}

fn gen_wake(rng: &mut Rng) -> Case {
    let kind = rng.below(15);
    let wbs = *rng.pick(&[64usize, 4096, 32768]);
    let mut items = vec![];
    let mut handlers = vec![];
    let mut rounds = vec![];
    let name;
    match kind {
        0 | 1 => {
            // the queue gate: one waiting handler, a full queue, late arrivals, then the wake-up
            name = "queue-drain";
            let first = rng.range(10, 30) as usize;
            let late: Vec<usize> = (0..rng.range(1, 3)).map(|_| rng.range(0, 12) as usize).collect();
            let n = 1 + first + late.iter().sum::<usize>();
            items.push(Item::Req { h: 18, b: None });
            handlers.push(vec![HAct::Wait, HAct::Respond(RespBody::None)]);
            for _ in 1..n {
                items.push(Item::Req { h: 18, b: None });
                handlers.push(vec![HAct::Respond(RespBody::None)]);
            }
            rounds.push(Round { add: 18 * (1 + first), wr: vec![W::A(1 << 20); 3], ..Default::default() });
            for l in &late {
                rounds.push(Round { add: 18 * l, wr: vec![W::A(1 << 20); 3], ..Default::default() });
            }
            rounds.push(Round { add: 0, hw: true, wr: vec![W::A(1 << 20); 3], ..Default::default() });
            if rng.chance(1, 2) {
                rounds.push(Round { add: 0, eof: true, wr: vec![W::A(1 << 20); 3], ..Default::default() });
            }
        }
        2 | 3 | 4 => {
            // adversarial socket: partial writes, Pending writes and flushes, bodies that wait
            name = "socket";
            let n = rng.range(1, 6) as usize;
            for _ in 0..n {
                items.push(Item::Req { h: fit_head(rng.range(18, 200) as usize, None), b: None });
                let mut h = vec![];
                if rng.chance(1, 3) {
                    h.push(if rng.chance(1, 2) { HAct::Pend } else { HAct::Wait });
                }
                h.push(HAct::Respond(if rng.chance(1, 3) { RespBody::None } else { body(rng) }));
                handlers.push(h);
            }
            let total: usize = items.iter().map(|i| if let Item::Req { h, .. } = i { *h } else { 0 }).sum();
            let mut left = total;
            for _ in 0..rng.range(1, 4) {
                let add = rng.below(left as u64 + 1) as usize;
                left -= add;
                rounds.push(Round { add, wr: wr(rng), fl: if rng.chance(1, 5) { vec![F::P] } else { vec![] }, hw: rng.chance(1, 2), ..Default::default() });
            }
            rounds.push(Round { add: left, wr: wr(rng), ..Default::default() });
            for _ in 0..rng.range(2, 14) {
                rounds.push(Round { add: 0, wr: wr(rng), fl: if rng.chance(1, 6) { vec![F::P] } else { vec![] }, hw: rng.chance(1, 2), ..Default::default() });
            }
            if rng.chance(1, 2) {
                rounds.push(Round { add: 0, eof: true, wr: wr(rng), ..Default::default() });
            }
        }
        5 | 6 => {
            // request body with a slow consumer; half-close at any point
            name = "body-halfclose";
            let blen = *rng.pick(&[10usize, 5000, 40_000, 100_000]);
            items.push(Item::Req { h: fit_head(60, Some(blen)), b: Some(blen) });
            let mut h = vec![];
            for _ in 0..rng.below(4) {
                h.push(HAct::Read);
                if rng.chance(1, 2) {
                    h.push(HAct::Pend);
                }
            }
            h.push(HAct::ReadAll);
            h.push(HAct::Respond(if rng.chance(1, 2) { RespBody::None } else { body(rng) }));
            handlers.push(h);
            for _ in 0..rng.below(3) {
                items.push(Item::Req { h: 18, b: None });
                handlers.push(vec![HAct::Respond(RespBody::None)]);
            }
            let total: usize = items.iter().map(|i| if let Item::Req { h, b } = i { h + b.unwrap_or(0) } else { 0 }).sum();
            let cut = if rng.chance(1, 3) { rng.below(total as u64 + 1) as usize } else { total };
            let mut left = cut;
            while left > 0 {
                let add = (*rng.pick(&[1usize, 100, 2000, 30_000, 200_000])).min(left);
                left -= add;
                rounds.push(Round { add, wr: wr(rng), hw: rng.chance(1, 2), ..Default::default() });
            }
            rounds.push(Round { add: 0, eof: rng.chance(2, 3), wr: wr(rng), hw: true, ..Default::default() });
        }
        7 => {
            // oracle-only: reset / socket write errors at any point
            name = "reset-or-error";
            let n = rng.range(1, 5) as usize;
            for _ in 0..n {
                items.push(Item::Req { h: 18, b: None });
                handlers.push(vec![HAct::Respond(if rng.chance(1, 2) { RespBody::None } else { body(rng) })]);
            }
            rounds.push(Round { add: 18 * n, wr: wr(rng), ..Default::default() });
            for _ in 0..rng.range(1, 5) {
                rounds.push(Round { add: 0, wr: wr(rng), hw: true, ..Default::default() });
            }
            let k = rng.below(rounds.len() as u64) as usize;
            match rng.below(3) {
                0 => rounds[k].rst = true,
                1 => rounds[k].wr.insert(0, W::Z),
                _ => rounds[k].wr.insert(0, W::E),
            }
        }
        8 => {
            // oracle-only: the consumer drops the request body
            name = "drop-payload";
            let blen = *rng.pick(&[10usize, 5000, 100_000]);
            items.push(Item::Req { h: fit_head(60, Some(blen)), b: Some(blen) });
            let mut h = vec![];
            if rng.chance(1, 2) {
                h.push(HAct::Read);
            }
            h.push(HAct::Drop);
            if rng.chance(1, 2) {
                h.push(HAct::Pend);
            }
            h.push(HAct::Respond(RespBody::None));
            handlers.push(h);
            let total = 60 + blen;
            let mut left = total;
            while left > 0 {
                let add = (*rng.pick(&[100usize, 2000, 30_000, 200_000])).min(left);
                left -= add;
                rounds.push(Round { add, wr: wr(rng), hw: rng.chance(1, 2), ..Default::default() });
            }
            rounds.push(Round { add: 0, eof: rng.chance(1, 2), wr: wr(rng), hw: true, ..Default::default() });
        }
        9 | 10 => {
            // drain mode at the read-buffer cap: chunked body, the handler drops the payload and
            // answers early, far more than MAX_BUFFER_SIZE readable at once, a request behind it
            name = "drop-drain";
            let b = *rng.pick(&[150_000usize, 260_000, 384_000, 600_000]);
            let cs = *rng.pick(&[1000usize, 8192, 65_536, 1 << 20]);
            items.push(Item::Chunked { h: CHUNKED_BASE + rng.below(20) as usize, b, cs });
            let mut h = vec![HAct::Drop];
            if rng.chance(1, 3) {
                h.push(HAct::Pend);
            }
            h.push(HAct::Respond(RespBody::None));
            handlers.push(h);
            for _ in 0..rng.range(1, 3) {
                items.push(Item::Req { h: 18, b: None });
                handlers.push(vec![HAct::Respond(RespBody::None)]);
            }
            let total: usize = items.iter().map(|i| item_lens(i).map_or(0, |l| l.1)).sum();
            if rng.chance(2, 3) {
                rounds.push(Round { add: total, wr: vec![W::A(1 << 20); 3], ..Default::default() });
            } else {
                let first = rng.range(1, total as u64) as usize;
                rounds.push(Round { add: first, wr: vec![W::A(1 << 20); 3], ..Default::default() });
                rounds.push(Round { add: total - first, wr: vec![W::A(1 << 20); 3], ..Default::default() });
            }
            if rng.chance(1, 2) {
                rounds.push(Round { add: 0, eof: true, wr: vec![W::A(1 << 20); 3], ..Default::default() });
            }
        }
        11 | 12 => {
            // a request that makes poll_request store a stream error (over-long head: 431, modelled;
            // malformed head: 400, oracle-only) behind valid pipelined requests, while the socket
            // takes only part of the write buffer and then returns Pending
            name = "error-behind-valid";
            let n = rng.range(1, 4) as usize;
            for _ in 0..n {
                items.push(Item::Req { h: 18, b: None });
                handlers.push(vec![HAct::Respond(if rng.chance(1, 2) { RespBody::None } else { body(rng) })]);
            }
            let bad = rng.chance(1, 2);
            items.push(if bad { Item::Bad } else { Item::Endless });
            let first = 18 * n + if bad { BAD_REQ.len() } else { 140_000 };
            let part = vec![W::A(rng.range(1, 120) as usize), W::P];
            rounds.push(Round { add: first, wr: part.clone(), ..Default::default() });
            if !bad {
                rounds.push(Round { add: 10_000, wr: if rng.chance(1, 2) { part } else { vec![] }, ..Default::default() });
            }
            for _ in 0..rng.range(0, 3) {
                rounds.push(Round { add: 0, wr: vec![W::A(rng.range(1, 200) as usize), W::P], ..Default::default() });
            }
        }
        13 => {
            // a Paused payload dropped late: the handler waits while the channel fills beyond its
            // limit, then drops the payload unread and answers; a request behind it
            name = "drop-late";
            let b = *rng.pick(&[150_000usize, 260_000, 400_000, 600_000]);
            let cs = *rng.pick(&[8192usize, 65_536, 1 << 20]);
            items.push(Item::Chunked { h: CHUNKED_BASE + rng.below(20) as usize, b, cs });
            handlers.push(vec![HAct::Wait, HAct::Drop, HAct::Respond(RespBody::None)]);
            for _ in 0..rng.range(1, 3) {
                items.push(Item::Req { h: 18, b: None });
                handlers.push(vec![HAct::Respond(RespBody::None)]);
            }
            let total: usize = items.iter().map(|i| item_lens(i).map_or(0, |l| l.1)).sum();
            rounds.push(Round { add: total, wr: vec![W::A(1 << 20); 3], ..Default::default() });
            rounds.push(Round { add: 0, hw: true, wr: vec![W::A(1 << 20); 3], ..Default::default() });
        }
        _ => {
            // plain pipelines, everything in few rounds, EOF at the end
            name = "pipeline-eof";
            let n = rng.range(1, 40) as usize;
            for _ in 0..n {
                items.push(Item::Req { h: 18, b: None });
                handlers.push(vec![HAct::Respond(RespBody::None)]);
            }
            let a = rng.below(18 * n as u64 + 1) as usize;
            rounds.push(Round { add: a, wr: wr(rng), ..Default::default() });
            rounds.push(Round { add: 18 * n - a, wr: wr(rng), eof: rng.chance(1, 2), ..Default::default() });
            rounds.push(Round { add: 0, wr: wr(rng), eof: true, ..Default::default() });
        }
    }
    Case { kind: name.into(), wbs, r: LW, items, handlers, rounds }
}

fn gen_flush(rng: &mut Rng) -> FlushCase {
    let n = *rng.pick(&[1usize, 5, 100, 1000, 4000]);
    let mut rounds = vec![];
    for _ in 0..rng.range(1, 8) {
        let mut w = vec![];
        for _ in 0..rng.below(5) {
            w.push(match rng.below(12) {
                0 => W::P,
                1 if rng.chance(1, 4) => W::Z,
                2 if rng.chance(1, 4) => W::E,
                3 => W::A(1 << 20),
                _ => W::A(rng.range(1, 700) as usize),
            });
        }
        let fl = match rng.below(8) {
            0 => vec![F::P],
            1 if rng.chance(1, 3) => vec![F::E],
            _ => vec![],
        };
        rounds.push((w, fl));
    }
    FlushCase { n, rounds }
}

fn main() {
    let args = parse_args();
    let mut em = Emitter::default();
    let fix21 = repo_has_fix21();
    for (id, v) in args.fixed_inputs() {
        if let Some(f) = v.get("flush") {
            run_flush(id, serde_json::from_value(f.clone()).expect("flush case"), &mut em);
        } else if let Some(l) = v.get("leftover") {
            run_leftover(id, serde_json::from_value(l.clone()).expect("leftover case"), fix21, &mut em);
        } else {
            run_wake(id, serde_json::from_value(v).expect("case json"), fix21, &mut em);
        }
    }
    if args.case.is_none() {
        let n = args.n.unwrap_or(if args.thorough() { 900 } else { 120 });
        let mut rng = Rng::new(args.seed);
        for i in 0..n {
            let mut r = rng.fork();
            if i % 4 == 3 {
                run_flush(format!("gen-{i}"), gen_flush(&mut r), &mut em);
            } else if i % 8 == 5 {
                run_leftover(format!("gen-{i}"), leftover::generate(&mut r), fix21, &mut em);
            } else {
                run_wake(format!("gen-{i}"), gen_wake(&mut r), fix21, &mut em);
            }
        }
    }
    em.finish();
}
