fn main() {}
