//! The "leftover + EOF" family of C04: complete exchange(s) on a keep-alive connection; then, in a
//! later poll, bytes that never decode to a message (truncated head, stray CRLF, partial chunk-size
//! line); then the peer's FIN in the same or a separate poll; keep-alive timer armed or not
//! (KeepAlive::Timeout / KeepAlive::Os); with and without a pending handler and queued requests.
//!
//! Own runner (the shared scenario runner cannot deliver raw tail bytes, choose the keep-alive mode
//! or move the clock): wake-driven rounds exactly like `scen::run_case`, then a TIME phase in which
//! the paused clock is advanced so that an armed timer shows as a wake-up.
//!
//! Oracle (implementation only): after the peer's FIN, once every started handler has completed and
//! everything produced is flushed, the connection future has terminated; a connection that is still
//! Pending at the end has a registered waker (socket reader / writer, handler) or an armed timer.

use std::{
    cell::RefCell,
    future::Future,
    pin::Pin,
    rc::Rc,
    task::{Context, Poll},
    time::Duration,
};

use actix_http::{KeepAlive, Request, Response, StatusCode};
use serde::{Deserialize, Serialize};
use vh::h1conn::*;

use crate::scen::*;

#[derive(Serialize, Deserialize, Clone, Debug, PartialEq)]
pub enum Tail {
    /// the first `k` bytes of a long request head
    TruncHead(usize),
    /// a stray CRLF (some legacy clients send one after a request)
    Crlf,
    /// a complete chunked POST head followed by a partial chunk-size line (oracle-only)
    ChunkLine,
}

#[derive(Serialize, Deserialize, Clone, Debug, PartialEq)]
pub struct Leftover {
    /// complete `GET / HTTP/1.1` requests in front of the tail (>= 1)
    pub n: usize,
    pub tail: Tail,
    /// the tail arrives in the same read as the requests (otherwise in a later poll of its own)
    pub tail_with_requests: bool,
    /// the FIN arrives in a poll of its own after the tail (otherwise together with the tail)
    pub fin_separate: bool,
    /// control: the peer never closes
    pub no_fin: bool,
    /// keep-alive timer in seconds; 0 = KeepAlive::Os (kept alive, no timer)
    pub ka_secs: u64,
    /// the handler of the first request waits for an external event (the others stay queued)
    pub first_waits: bool,
    /// ... which happens only after the FIN (handler pending, requests queued at EOF)
    pub wake_after_fin: bool,
}

const LONG_HEAD_PAD: usize = 300;
fn long_head() -> Vec<u8> {
    format!("GET /{} HTTP/1.1\r\nhost: example.org\r\nx-leftover: 1\r\n\r\n", "a".repeat(LONG_HEAD_PAD)).into_bytes()
}
const CHUNK_TAIL: &[u8] = b"POST / HTTP/1.1\r\ntransfer-encoding: chunked\r\n\r\n1f";

pub fn tail_bytes(t: &Tail) -> Vec<u8> {
    match t {
        Tail::TruncHead(k) => {
            let h = long_head();
            let k = (*k).clamp(1, h.len() - 1);
            h[..k].to_vec()
        }
        Tail::Crlf => b"\r\n".to_vec(),
        Tail::ChunkLine => CHUNK_TAIL.to_vec(),
    }
}

pub fn modelled(l: &Leftover) -> bool {
    l.tail != Tail::ChunkLine
}

/// the rounds of the scenario (the tail is described by its length)
pub fn rounds_of(l: &Leftover) -> Vec<Round> {
    let acc = || vec![W::A(1 << 20); 3];
    let tl = tail_bytes(&l.tail).len();
    let mut rounds = vec![];
    let together = l.tail_with_requests;
    let fin_now = |sep: bool| !l.no_fin && !sep;
    rounds.push(Round { add: 18 * l.n + if together { tl } else { 0 }, eof: together && fin_now(l.fin_separate), wr: acc(), ..Default::default() });
    if l.first_waits && !l.wake_after_fin {
        rounds.push(Round { add: 0, hw: true, wr: acc(), ..Default::default() });
    }
    if !together {
        rounds.push(Round { add: tl, eof: fin_now(l.fin_separate), wr: acc(), ..Default::default() });
    }
    if l.fin_separate && !l.no_fin {
        rounds.push(Round { add: 0, eof: true, wr: acc(), ..Default::default() });
    }
    // the environment has nothing further to deliver: accepting socket, pending handlers woken
    for _ in 0..6 {
        rounds.push(Round { add: 0, hw: true, wr: acc(), ..Default::default() });
    }
    rounds
}

/// the same scenario in the vocabulary of the composer: the tail is a request head that never completes
pub fn as_case(l: &Leftover) -> Case {
    let tl = tail_bytes(&l.tail).len();
    let mut items = vec![Item::Req { h: 18, b: None }; l.n];
    items.push(Item::Req { h: tl + 64, b: None });
    let mut handlers = vec![vec![HAct::Respond(RespBody::None)]; l.n];
    if l.first_waits {
        handlers[0].insert(0, HAct::Wait);
    }
    Case { kind: "leftover-eof".into(), wbs: 32768, r: LW, items, handlers, rounds: rounds_of(l) }
}

struct LHandler {
    wait: bool,
    ticket: Option<usize>,
    rec: Rc<RefCell<Rec>>,
    _payload: actix_http::Payload,
}
impl Future for LHandler {
    type Output = Result<Response<actix_http::body::None>, actix_http::Error>;
    fn poll(self: Pin<&mut Self>, cx: &mut Context<'_>) -> Poll<Self::Output> {
        let this = self.get_mut();
        let mut rec = this.rec.borrow_mut();
        if this.wait {
            match this.ticket {
                Some(t) if t < rec.hwc => this.wait = false,
                _ => {
                    if this.ticket.is_none() {
                        this.ticket = Some(rec.hwc);
                    }
                    rec.hreg = true;
                    rec.hwaker = Some(cx.waker().clone());
                    return Poll::Pending;
                }
            }
        }
        rec.responded += 1;
        rec.produced += resp_head_len_cached(&RespBody::None);
        Poll::Ready(Ok(Response::new(StatusCode::OK).set_body(actix_http::body::None::new())))
    }
}

#[derive(Default)]
pub struct LeftoverOut {
    pub run: RunOut,
    /// after the rounds: the clock was advanced this many times, and the task's waker fired after this many of them
    pub advances: usize,
    pub timer_wakes: usize,
    /// a waker is held by the socket reader / writer / a handler at the end
    pub reader_reg: bool,
    pub writer_reg: bool,
    pub handler_reg: bool,
    pub fin_delivered: bool,
    pub shutdown_called: usize,
}

pub fn run(l: &Leftover) -> LeftoverOut {
    let l = l.clone();
    vh::exec::run_local(async move {
        tokio::time::pause();
        let io = ScriptIo::new();
        {
            let mut s = io.0.borrow_mut();
            s.read_chunk = LW;
            s.write_default = Some(WriteStep::Pending);
        }
        let rec = Rc::new(RefCell::new(Rec::default()));
        let rec2 = rec.clone();
        let first_waits = l.first_waits;
        let cfg = ConnCfg {
            keep_alive: if l.ka_secs == 0 { KeepAlive::Os } else { KeepAlive::Timeout(Duration::from_secs(l.ka_secs)) },
            write_buffer_size: Some(32768),
            ..ConnCfg::default()
        };
        let mut conn = Conn::start(cfg, io.clone(), move |mut req: Request| {
            let idx = {
                let mut r = rec2.borrow_mut();
                r.started += 1;
                r.started - 1
            };
            LHandler { wait: first_waits && idx == 0, ticket: None, rec: rec2.clone(), _payload: req.take_payload() }
        })
        .await;
        let mut stream: Vec<u8> = vec![];
        for _ in 0..l.n {
            stream.extend_from_slice(b"GET / HTTP/1.1\r\n\r\n");
        }
        stream.extend_from_slice(&tail_bytes(&l.tail));
        let rounds = rounds_of(&l);
        let mut pos = 0usize;
        let mut out = LeftoverOut::default();
        let mut first = true;
        // poll while woken; returns the snapshot of the round
        let drive = |conn: &mut Conn, first: &mut bool, out: &mut LeftoverOut| -> Snap {
            let mut polls = 0usize;
            let mut res = 0u8;
            loop {
                if !*first && conn.woken() == 0 {
                    break;
                }
                *first = false;
                rec.borrow_mut().hreg = false;
                let r = conn.poll();
                polls += 1;
                res = match &r {
                    ConnPoll::Pending => 0,
                    ConnPoll::Done => 1,
                    ConnPoll::Failed(e) if e == "Parse" => 2,
                    ConnPoll::Failed(_) => 3,
                };
                if res != 0 {
                    out.run.finished = true;
                    break;
                }
                if polls >= 5000 {
                    out.run.livelock = true;
                    break;
                }
            }
            let s = io.0.borrow();
            let rc = rec.borrow();
            Snap {
                taken: s.total_read,
                started: rc.started,
                delivered: rc.delivered,
                pulled: rc.pulled,
                accepted: s.total_written,
                res,
                produced: rc.produced,
                responded: rc.responded,
                body_open: rc.body_open,
                polls,
                ..Default::default()
            }
        };
        for rd in &rounds {
            let end = (pos + rd.add).min(stream.len());
            if end > pos {
                io.push_read(&stream[pos..end]);
                pos = end;
            }
            if rd.eof {
                io.close_read();
                out.fin_delivered = true;
            }
            if !rd.wr.is_empty() {
                let steps: Vec<WriteStep> = rd.wr.iter().map(|w| match w {
                    W::A(k) => WriteStep::Accept((*k).max(1)),
                    W::P => WriteStep::Pending,
                    W::Z => WriteStep::Zero,
                    W::E => WriteStep::Err,
                }).collect();
                io.script_writes(&steps);
            }
            if rd.hw {
                rec.borrow_mut().hwc += 1;
                let w = rec.borrow_mut().hwaker.take();
                if let Some(w) = w {
                    w.wake();
                }
            }
            let snap = drive(&mut conn, &mut first, &mut out);
            out.run.snaps.push(snap);
            if out.run.finished || out.run.livelock {
                break;
            }
        }
        // TIME phase: an armed timer fires when the clock moves
        while !out.run.finished && !out.run.livelock && out.advances < 4 {
            tokio::time::advance(Duration::from_secs(3600)).await;
            Conn::settle().await;
            out.advances += 1;
            if conn.woken() == 0 {
                break;
            }
            out.timer_wakes += 1;
            io.script_writes(&[WriteStep::Accept(1 << 20); 3]);
            let _ = drive(&mut conn, &mut first, &mut out);
        }
        {
            let s = io.0.borrow();
            out.reader_reg = s.read_waker.is_some();
            out.writer_reg = s.write_waker.is_some();
            out.shutdown_called = s.shutdown_called;
        }
        out.handler_reg = rec.borrow().hwaker.is_some();
        out.run.offered = pos;
        out.run.wire = io.take_written();
        out.run.accepted_total = io.0.borrow().total_written;
        out
    })
}

/// the property clauses for this family, judged on the implementation's behaviour alone
pub fn oracle(l: &Leftover, o: &LeftoverOut) -> String {
    if o.run.livelock {
        return "connection task keeps waking itself (more than 5000 polls in one round)".into();
    }
    if o.run.finished {
        return String::new();
    }
    let last = o.run.snaps.last().cloned().unwrap_or_default();
    let handlers_done = last.responded == last.started;
    let flushed = last.produced == last.accepted;
    let armed = o.advances > 0 && o.timer_wakes == o.advances;
    if o.fin_delivered && handlers_done && flushed {
        return format!(
            "no termination: the peer finished sending ({} undecodable bytes left over), all {} handlers completed, everything flushed, the clock moved {} h ({} timer wake-ups): connection future still pending (reader registered: {}, writer registered: {}, shutdown called: {})",
            tail_bytes(&l.tail).len(), last.started, o.advances, o.timer_wakes, o.reader_reg, o.writer_reg, o.shutdown_called
        );
    }
    if !(o.reader_reg || o.writer_reg || o.handler_reg || armed) {
        return "connection future returned Pending with no registered waker (socket reader / writer, handler) and no armed timer".into();
    }
    String::new()
}

pub fn generate(rng: &mut vh::Rng) -> Leftover {
    let tail = match rng.below(8) {
        0 | 1 => Tail::Crlf,
        2 => Tail::ChunkLine,
        _ => Tail::TruncHead(*rng.pick(&[1usize, 4, 17, 40, 200, 320, 340, 355])),
    };
    let first_waits = rng.chance(1, 3);
    Leftover {
        n: if first_waits { rng.range(2, 20) as usize } else { rng.range(1, 4) as usize },
        tail,
        tail_with_requests: rng.chance(1, 4),
        fin_separate: rng.chance(1, 2),
        no_fin: rng.chance(1, 8),
        ka_secs: *rng.pick(&[0u64, 1, 5, 5]),
        first_waits,
        wake_after_fin: rng.chance(1, 2),
    }
}
