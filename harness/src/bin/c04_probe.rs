//! throw-away probe (not a property check): re-establishes F21 and F16 on the scripted socket
use std::{cell::RefCell, future::Future, pin::Pin, rc::Rc, task::{Context, Poll, Waker}};

use actix_http::{Error, Request, Response};
use vh::h1conn::*;

#[derive(Default)]
struct Gate {
    open: bool,
    waker: Option<Waker>,
}
struct Slow(Rc<RefCell<Gate>>);
impl Future for Slow {
    type Output = ();
    fn poll(self: Pin<&mut Self>, cx: &mut Context<'_>) -> Poll<()> {
        let mut g = self.0.borrow_mut();
        if g.open {
            Poll::Ready(())
        } else {
            g.waker = Some(cx.waker().clone());
            Poll::Pending
        }
    }
}

fn count(hay: &[u8], needle: &[u8]) -> usize {
    hay.windows(needle.len()).filter(|w| *w == needle).count()
}

fn f21() {
    let out = vh::exec::run_local(async {
        tokio::time::pause();
        let io = ScriptIo::new();
        let gate = Rc::new(RefCell::new(Gate::default()));
        let calls = Rc::new(RefCell::new(0usize));
        let (g2, c2) = (gate.clone(), calls.clone());
        let mut conn = Conn::start(ConnCfg::default(), io.clone(), move |req: Request| {
            let g = g2.clone();
            *c2.borrow_mut() += 1;
            async move {
                if req.path() == "/slow" {
                    Slow(g).await;
                }
                Ok::<_, Error>(Response::ok())
            }
        })
        .await;
        let mut log = vec![];
        // wake-driven executor: poll only when woken
        let mut drive = |conn: &mut Conn, log: &mut Vec<String>, tag: &str| {
            let mut n = 0;
            while conn.woken() > 0 || n == 0 && tag == "start" {
                let r = conn.poll();
                n += 1;
                if r != ConnPoll::Pending {
                    log.push(format!("{tag}: {:?}", r));
                    break;
                }
                if n > 1000 {
                    log.push(format!("{tag}: livelock"));
                    break;
                }
            }
            log.push(format!("{tag}: polls={n}"));
        };
        io.push_read(b"GET /slow HTTP/1.1\r\n\r\n");
        for _ in 0..16 {
            io.push_read(b"GET /fast HTTP/1.1\r\n\r\n");
        }
        drive(&mut conn, &mut log, "start");
        for _ in 0..10 {
            io.push_read(b"GET /late HTTP/1.1\r\n\r\n");
        }
        drive(&mut conn, &mut log, "late");
        gate.borrow_mut().open = true;
        if let Some(w) = gate.borrow_mut().waker.take() {
            w.wake();
        }
        drive(&mut conn, &mut log, "open");
        let w = io.take_written();
        let responses = count(&w, b"HTTP/1.1 200 OK");
        log.push(format!("responses={responses} calls={} unread={} woken={} finished={:?}", calls.borrow(), io.unread(), conn.woken(), conn.finished));
        // let virtual time pass: keep-alive expiry
        for _ in 0..8 {
            tokio::time::advance(std::time::Duration::from_secs(1)).await;
            Conn::settle().await;
            drive(&mut conn, &mut log, "tick");
        }
        let w2 = io.take_written();
        log.push(format!("after ka: more responses={} calls={} finished={:?} shutdown={}", count(&w2, b"HTTP/1.1 200 OK"), calls.borrow(), conn.finished, io.0.borrow().shutdown_done));
        log
    });
    println!("F21: {:#?}", out);
}

fn f16() {
    let out = vh::exec::run_local(async {
        tokio::time::pause();
        let io = ScriptIo::new();
        io.set_write_default(Some(WriteStep::Pending));
        let calls = Rc::new(RefCell::new(0usize));
        let c2 = calls.clone();
        let mut conn = Conn::start(ConnCfg::default(), io.clone(), move |_req: Request| {
            *c2.borrow_mut() += 1;
            async move { Ok::<_, Error>(Response::ok()) }
        })
        .await;
        let mut log = vec![];
        for round in 0..50 {
            for _ in 0..2000 {
                io.push_read(b"GET /x HTTP/1.1\r\n\r\n");
            }
            let mut n = 0;
            while conn.woken() > 0 || n == 0 {
                let r = conn.poll();
                n += 1;
                if r != ConnPoll::Pending || n > 10000 {
                    log.push(format!("round {round}: {:?} n={n}", r));
                    break;
                }
            }
        }
        let s = io.0.borrow();
        log.push(format!("taken={} calls={} accepted={} unread={}", s.total_read, calls.borrow(), s.total_written, s.read_q.len()));
        log
    });
    println!("F16: {:#?}", out);
}

fn main() {
    f21();
    f16();
}
