//! C01 — HTTP/1 request framing is unambiguous and independent of TCP segmentation.
//!
//! Runner A: `actix_http::h1::Codec::decode` over a growing `BytesMut`, one `extend` per read
//! segment, drained the way `InnerDispatcher::poll_request` drains it.
//! Runner B: the real dispatcher (`HttpService::h1`) over the scripted socket `vh::h1conn` with a
//! recording service: statuses of the responses the dispatcher generates itself, number of
//! requests handed to the service, connection closed.
//! Oracle (independent of the Coq model):
//!   (i)   implementation on the segmented input == implementation on the baseline segmentation
//!         (whole stream; reads of 4096 bytes when the stream is >= MAX_BUFFER_SIZE);
//!   (ii)  implementation == `reference()`, an RFC 7230 section 3.3.3 / 4.1 framing reference
//!         written here from the RFC text (messages, body bytes, rejection point and class);
//!   (iii) dispatcher level: a rejected stream gets exactly one 4xx (431 for an oversized head),
//!         the connection is closed, and no request after the rejection point reaches the service.
//! Known-finding classes are predicates on the case, computed by the reference parser.

use std::{cell::Cell, collections::BTreeSet, rc::Rc};

use actix_codec::Decoder as _;
use actix_http::{h1, Error, HttpMessage as _, Request, Response};
use bytes::BytesMut;
use futures_util::StreamExt as _;
use serde::{Deserialize, Serialize};
use vh::{h1conn::*, *};

const MAX_BUFFER_SIZE: usize = 131_072;
const HW_BUFFER_SIZE: usize = 8_192;
const MAX_HEADERS: usize = 96;

// ------------------------------------------------------------------ case
#[derive(Serialize, Deserialize, Clone, Debug)]
#[serde(rename_all = "lowercase")]
enum Piece {
    Lit(String),          // hex
    Rep(usize, u8),
}
#[derive(Serialize, Deserialize, Clone, Debug)]
#[serde(rename_all = "lowercase")]
enum Seg {
    Cuts(Vec<usize>),
    Every(usize),
}
#[derive(Serialize, Deserialize, Clone, Debug)]
struct Case {
    pieces: Vec<Piece>,
    seg: Seg,
    /// 0 = runner A only; 1 = runner B too; 2 = runner B without the dispatched-request count in
    /// the model comparison (set by `emit_case` for cases of class F25)
    with_b: u8,
    /// runner B schedule: the handler of the i-th dispatched request stays Pending for
    /// `delays[i]` polls (odd: before reading its payload, even: after); missing = 0
    #[serde(default)]
    delays: Vec<u8>,
    /// runner B schedule: the first `wblock` socket writes return Pending (the writer is woken
    /// again when the connection has gone quiet)
    #[serde(default)]
    wblock: u8,
    #[serde(default)]
    tags: Vec<String>,
}

/// a future that is Pending for `k` polls, waking itself each time
struct PendingFor(u8);
impl std::future::Future for PendingFor {
    type Output = ();
    fn poll(mut self: std::pin::Pin<&mut Self>, cx: &mut std::task::Context<'_>) -> std::task::Poll<()> {
        if self.0 == 0 {
            std::task::Poll::Ready(())
        } else {
            self.0 -= 1;
            cx.waker().wake_by_ref();
            std::task::Poll::Pending
        }
    }
}

fn stream_of(ps: &[Piece]) -> Vec<u8> {
    let mut v = vec![];
    for p in ps {
        match p {
            Piece::Lit(h) => v.extend(unhex(h)),
            Piece::Rep(n, b) => v.extend(std::iter::repeat(*b).take(*n)),
        }
    }
    v
}
/// strictly increasing cut offsets in (0, len)
fn sanitize_cuts(c: &[usize], len: usize) -> Vec<usize> {
    let mut v: Vec<usize> = c.iter().copied().filter(|&x| x > 0 && x < len).collect();
    v.sort();
    v.dedup();
    v
}
fn segments(seg: &Seg, data: &[u8]) -> Vec<Vec<u8>> {
    match seg {
        Seg::Cuts(c) => cut(data, c),
        Seg::Every(k) => data.chunks((*k).max(1)).map(|c| c.to_vec()).collect(),
    }
}
fn coq_case(c: &Case, polls: Option<&[(usize, usize)]>) -> String {
    let ps = coq_list(&c.pieces, |p| match p {
        // sentinel-prefixed hexadecimal numerals of at most 256 bytes each (fast to elaborate)
        Piece::Lit(h) => (0..h.len()).step_by(512).map(|i| format!("LitN 0x01{}", &h[i..(i + 512).min(h.len())])).collect::<Vec<_>>().join("; "),
        Piece::Rep(n, b) => format!("Rep {} {}", n, b),
    });
    let sg = match &c.seg {
        Seg::Cuts(v) => format!("(Cuts {})", coq_list(v, |x| x.to_string())),
        Seg::Every(k) => format!("(Every {})", k),
    };
    match polls {
        // runner-B case: the poll/read schedule observed on the real dispatcher drives the gate model
        Some(pl) => format!("CaseB {} {} {}", ps, sg, coq_list(pl, |x| format!("({}, {})", x.0, x.1))),
        None => format!("Case {} {} {}", ps, sg, c.with_b),
    }
}

// ------------------------------------------------------------------ observables
#[derive(Clone, Debug, PartialEq, Eq)]
struct Msg {
    method: Vec<u8>,
    target: Vec<u8>,
    version: u8, // 0 = HTTP/1.0, 1 = HTTP/1.1
    headers: Vec<(Vec<u8>, Vec<u8>)>, // lower-case names, stably sorted by name
    body: Vec<u8>,
    done: bool,
}
#[derive(Clone, Debug, PartialEq, Eq)]
enum End {
    Need { rest: usize, mt: &'static str },
    Err(&'static str),
}
#[derive(Clone, Debug, PartialEq, Eq)]
struct Outcome {
    msgs: Vec<Msg>,
    end: End,
}

fn cksum(b: &[u8]) -> (u128, u128) {
    let (mut a, mut c) = (0u128, 0u128);
    for &x in b {
        a += x as u128 + 1;
        c += a;
    }
    (a, c)
}
/// result value with byte strings as sentinel-prefixed numerals (prints as a `V` term)
#[derive(Clone, Debug)]
enum W {
    Num(Vec<u8>),
    N(u128),
    T(&'static str, Vec<W>),
    L(Vec<W>),
}
impl W {
    fn coq(&self) -> String {
        match self {
            W::Num(b) => format!("(VN 0x01{})", hex(b)),
            W::N(n) => format!("(VN {})", n),
            W::T(t, a) => format!("(VT \"{}\" [{}])", t, a.iter().map(|x| x.coq()).collect::<Vec<_>>().join("; ")),
            W::L(a) => format!("(VL [{}])", a.iter().map(|x| x.coq()).collect::<Vec<_>>().join("; ")),
        }
    }
}
fn field(b: &[u8]) -> Vec<u8> {
    if b.len() <= 64 {
        let mut v = vec![0u8, b.len() as u8];
        v.extend_from_slice(b);
        v
    } else {
        let (a, c) = cksum(b);
        let mut v = vec![1u8];
        v.extend_from_slice(&(b.len() as u64).to_be_bytes());
        v.extend_from_slice(&(a as u64).to_be_bytes());
        v.extend_from_slice(&(c as u64).to_be_bytes());
        v
    }
}
fn show_bytes(b: &[u8]) -> String {
    if b.len() <= 64 {
        format!("{:?}", String::from_utf8_lossy(b))
    } else {
        format!("<{} bytes>", b.len())
    }
}
fn w_msg(m: &Msg) -> W {
    let mut h = field(&m.method);
    h.extend(field(&m.target));
    h.push(m.version);
    for (n, v) in &m.headers {
        h.extend(field(n));
        h.extend(field(v));
    }
    W::T("m", vec![W::Num(h), W::Num(field(&m.body)), W::N(m.done as u128)])
}
fn show_msg(m: &Msg) -> String {
    format!(
        "{} {} 1.{} [{}] body={} done={}",
        show_bytes(&m.method),
        show_bytes(&m.target),
        m.version,
        m.headers.iter().map(|(n, v)| format!("{}: {}", show_bytes(n), show_bytes(v))).collect::<Vec<_>>().join(", "),
        show_bytes(&m.body),
        m.done
    )
}
fn w_outcome(o: &Outcome) -> W {
    let ms = W::L(o.msgs.iter().map(w_msg).collect());
    match &o.end {
        End::Need { rest, mt } => W::T("need", vec![ms, W::N(*rest as u128), W::T(mt, vec![])]),
        End::Err(e) => W::T("err", vec![ms, W::T(e, vec![])]),
    }
}
fn show_outcome(o: &Outcome) -> String {
    format!("{{{}}} end={:?}", o.msgs.iter().map(show_msg).collect::<Vec<_>>().join(" | "), o.end)
}

fn err_class(e: &actix_http::error::ParseError) -> &'static str {
    use actix_http::error::ParseError as P;
    match e {
        P::Header => "header",
        P::TooLarge => "too_large",
        P::Io(_) => "io",
        _ => "other",
    }
}

/// the head of a request as the application sees it (header names lower-case, stably sorted by name)
fn msg_of_request(req: &Request) -> Msg {
    let mut headers: Vec<(Vec<u8>, Vec<u8>)> = vec![];
    let mut names: Vec<String> = req.headers().keys().map(|k| k.as_str().to_string()).collect();
    names.sort();
    for n in names {
        for v in req.headers().get_all(n.as_str()) {
            headers.push((n.as_bytes().to_vec(), v.as_bytes().to_vec()));
        }
    }
    Msg {
        method: req.method().as_str().as_bytes().to_vec(),
        target: req.uri().to_string().into_bytes(),
        version: if req.version() == http::Version::HTTP_11 { 1 } else { 0 },
        headers,
        body: vec![],
        done: false,
    }
}

// ------------------------------------------------------------------ runner A
fn run_a(segs: &[Vec<u8>]) -> Outcome {
    vh::exec::run_local(async {
        let mut codec = h1::Codec::default();
        let mut buf = BytesMut::new();
        let mut msgs: Vec<Msg> = vec![];
        for seg in segs {
            buf.extend_from_slice(seg);
            loop {
                match codec.decode(&mut buf) {
                    Ok(Some(h1::Message::Item(req))) => msgs.push(msg_of_request(&req)),
                    Ok(Some(h1::Message::Chunk(Some(b)))) => {
                        if let Some(m) = msgs.last_mut() {
                            m.body.extend_from_slice(&b);
                        }
                    }
                    Ok(Some(h1::Message::Chunk(None))) => {
                        if let Some(m) = msgs.last_mut() {
                            m.done = true;
                        }
                    }
                    Ok(None) => break,
                    Err(e) => return Outcome { msgs, end: End::Err(err_class(&e)) },
                }
            }
        }
        let mt = match codec.message_type() {
            h1::MessageType::None => "none",
            h1::MessageType::Payload => "payload",
            h1::MessageType::Stream => "stream",
        };
        Outcome { msgs, end: End::Need { rest: buf.len(), mt } }
    })
}

// ------------------------------------------------------------------ runner B
#[derive(Clone, Debug, PartialEq, Eq)]
struct Disp {
    /// statuses of responses not produced by the handler (no `x-h` marker), 100 Continue excluded
    own_statuses: Vec<u16>,
    dispatched: usize,
    closed: bool,
    handler_statuses: usize,
    /// no response of the handler was written after a response of the dispatcher's own
    own_last: bool,
    /// (method, target) of every request handed to the service, in order
    reqs: Vec<(Vec<u8>, Vec<u8>)>,
    /// the same requests as the handler saw them: head (version, header list) and the body bytes its
    /// payload stream yielded (`done` = the stream ended without an error)
    seen: Vec<Msg>,
    /// observed schedule, run-length encoded: (bytes taken from the socket during one poll of the
    /// connection future, number of consecutive such polls); runs of idle polls are capped at 3
    polls: Vec<(usize, usize)>,
}

fn parse_responses(mut w: &[u8]) -> Vec<(u16, bool)> {
    let mut out = vec![];
    loop {
        let Some(p) = w.windows(4).position(|x| x == b"\r\n\r\n") else { break };
        let head = &w[..p];
        let text = String::from_utf8_lossy(head).to_ascii_lowercase();
        let status: u16 = text.get(9..12).and_then(|s| s.parse().ok()).unwrap_or(0);
        let marker = text.contains("\r\nx-h: 1");
        let cl: usize = text
            .split("\r\n")
            .find_map(|l| l.strip_prefix("content-length:").map(|v| v.trim().parse().unwrap_or(0)))
            .unwrap_or(0);
        out.push((status, marker));
        // a response to HEAD announces a length but carries no body
        let after = &w[p + 4..];
        let no_body = after.is_empty() || after.starts_with(b"HTTP/1.");
        let next = p + 4 + if no_body { 0 } else { cl };
        if next > w.len() {
            break;
        }
        w = &w[next..];
    }
    out
}

fn run_b(segs: &[Vec<u8>], delays: &[u8], wblock: u8) -> Disp {
    let delays = delays.to_vec();
    vh::exec::run_local(async {
        tokio::time::pause();
        let io = ScriptIo::new();
        io.script_writes(&vec![WriteStep::Pending; wblock as usize]);
        let calls = Rc::new(Cell::new(0usize));
        let calls2 = calls.clone();
        let reqs = Rc::new(std::cell::RefCell::new(Vec::<(Vec<u8>, Vec<u8>)>::new()));
        let reqs2 = reqs.clone();
        let seen = Rc::new(std::cell::RefCell::new(Vec::<Msg>::new()));
        let seen2 = seen.clone();
        let reads = Rc::new(std::cell::RefCell::new(Vec::<usize>::new()));
        let reads2 = reads.clone();
        let mut conn = Conn::start(ConnCfg::default(), io.clone(), move |mut req: Request| {
            let k = delays.get(calls2.get()).copied().unwrap_or(0);
            let idx = calls2.get();
            calls2.set(calls2.get() + 1);
            reqs2.borrow_mut().push((req.method().as_str().as_bytes().to_vec(), req.uri().to_string().into_bytes()));
            seen2.borrow_mut().push(msg_of_request(&req));
            let seen3 = seen2.clone();
            async move {
                if k % 2 == 1 {
                    PendingFor(k).await;
                }
                let mut pl = req.take_payload();
                let mut clean_end = true;
                while let Some(item) = pl.next().await {
                    match item {
                        Ok(b) => seen3.borrow_mut()[idx].body.extend_from_slice(&b),
                        Err(_) => {
                            clean_end = false;
                            break;
                        }
                    }
                }
                seen3.borrow_mut()[idx].done = clean_end;
                if k % 2 == 0 {
                    PendingFor(k).await;
                }
                Ok::<_, Error>(Response::ok().insert_header_marker().set_body("ok"))
            }
        })
        .await;
        let mut written = vec![];
        let io2 = io.clone();
        let drive = move |conn: &mut Conn| {
            for _ in 0..400 {
                let before = io2.0.borrow().total_read;
                let was_finished = conn.finished.is_some();
                conn.poll();
                if !was_finished {
                    reads2.borrow_mut().push(io2.0.borrow().total_read - before);
                }
                if conn.finished.is_some() {
                    break;
                }
                if conn.woken() == 0 {
                    // quiet: release a writer blocked by the write script, if any
                    io2.script_writes(&[]);
                    if conn.woken() == 0 {
                        break;
                    }
                }
            }
        };
        for seg in segs {
            if conn.finished.is_some() {
                break;
            }
            io.push_read(seg);
            drive(&mut conn);
            Conn::settle().await;
            drive(&mut conn);
            written.extend(io.take_written());
        }
        for _ in 0..4 {
            Conn::settle().await;
            drive(&mut conn);
        }
        written.extend(io.take_written());
        let rs = parse_responses(&written);
        if std::env::var("C01_DEBUG").is_ok() {
            eprintln!("WRITTEN: {:?}\nfinished={:?} shutdown_called={} unread={}", String::from_utf8_lossy(&written), conn.finished, io.0.borrow().shutdown_called, io.unread());
        }
        let closed = conn.finished.is_some() || io.0.borrow().shutdown_called > 0;
        let reqs_v = reqs.borrow().clone();
        let reads_v = reads.borrow().clone();
        let seen_v = seen.borrow().clone();
        Disp {
            own_statuses: rs.iter().filter(|r| !r.1 && r.0 != 100).map(|r| r.0).collect(),
            dispatched: calls.get(),
            closed,
            handler_statuses: rs.iter().filter(|r| r.1).count(),
            own_last: match rs.iter().position(|r| !r.1 && r.0 != 100) {
                Some(i) => rs[i + 1..].iter().all(|r| !r.1),
                None => true,
            },
            reqs: reqs_v,
            seen: seen_v,
            polls: {
                let mut out: Vec<(usize, usize)> = vec![];
                // bytes the client sent that the dispatcher never took from the socket (it had
                // already rejected / finished): offered to the model in one last poll, where the
                // READ_DISCONNECT gate must ignore them
                let total: usize = segs.iter().map(|s| s.len()).sum();
                let taken: usize = reads_v.iter().sum();
                let mut reads_v = reads_v.clone();
                if taken < total {
                    reads_v.push(total - taken);
                }
                for &n in reads_v.iter() {
                    match out.last_mut() {
                        Some(l) if l.0 == n => {
                            if n != 0 || l.1 < 3 {
                                l.1 += 1;
                            }
                        }
                        _ => out.push((n, 1)),
                    }
                }
                out
            },
        }
    })
}

trait Marker {
    fn insert_header_marker(self) -> Self;
}
impl Marker for Response<actix_http::body::BoxBody> {
    fn insert_header_marker(mut self) -> Self {
        self.headers_mut().insert(
            actix_http::header::HeaderName::from_static("x-h"),
            actix_http::header::HeaderValue::from_static("1"),
        );
        self
    }
}

// ------------------------------------------------------------------ RFC 7230 framing reference
#[derive(Clone, Debug, PartialEq, Eq)]
enum RefEnd {
    /// stream exhausted at a message boundary or inside a message (`rest` = bytes of an incomplete head)
    NeedMore { rest: usize },
    /// message rejected; class: "4xx" (bad framing / syntax), "431" (oversized head), "chunk" (body-level)
    Rejected(&'static str),
    /// everything after an accepted upgrade / CONNECT belongs to the tunnel
    Tunnel,
}
#[derive(Default, Clone, Debug)]
struct Classes {
    f3_empty_size_line: bool,
    f19_head_in_band: bool,
    /// lengths of the complete request heads of >= MAX_BUFFER_SIZE bytes (the F19 class is
    /// recomputed from them in `emit_case` with the case's largest read)
    long_heads: Vec<usize>,
    f22_chunk_error: bool,
    /// filled by `emit_case` from `spans` and the segment ends
    f25_pipelined_body_split: bool,
}
struct RefOut {
    /// per message: offset of the end of its head, offset of the end of its body if it is complete
    spans: Vec<(usize, Option<usize>)>,
    msgs: Vec<Msg>,
    end: RefEnd,
    classes: Classes,
}

fn is_tchar(b: u8) -> bool {
    b.is_ascii_alphanumeric() || b"!#$%&'*+-.^_`|~".contains(&b)
}

fn trim_ows(v: &[u8]) -> &[u8] {
    let mut s = 0;
    let mut e = v.len();
    while s < e && (v[s] == b' ' || v[s] == b'\t') {
        s += 1;
    }
    while e > s && (v[e - 1] == b' ' || v[e - 1] == b'\t') {
        e -= 1;
    }
    &v[s..e]
}

enum RefBody {
    None,
    Length(u64),
    Chunked,
    Tunnel,
}

/// RFC 7230 section 3.3.3 with the strict choices named in the property: any ambiguity is an error.
fn ref_body_kind(method: &[u8], version: u8, headers: &[(Vec<u8>, Vec<u8>)]) -> Result<RefBody, &'static str> {
    let te: Vec<&Vec<u8>> = headers.iter().filter(|h| h.0 == b"transfer-encoding").map(|h| &h.1).collect();
    let cl: Vec<&Vec<u8>> = headers.iter().filter(|h| h.0 == b"content-length").map(|h| &h.1).collect();
    // Content-Length = 1*DIGIT, exactly one field, value fits the implementation's u64
    let mut len: Option<u64> = None;
    if cl.len() > 1 {
        return Err("4xx");
    }
    if let Some(v) = cl.first() {
        let v = trim_ows(v);
        if v.is_empty() || !v.iter().all(|b| b.is_ascii_digit()) {
            return Err("4xx");
        }
        let mut n: u128 = 0;
        for b in v {
            n = n * 10 + (b - b'0') as u128;
            if n > u64::MAX as u128 {
                return Err("4xx");
            }
        }
        len = Some(n as u64);
    }
    if !te.is_empty() {
        if version == 0 || te.len() > 1 || len.is_some() {
            return Err("4xx");
        }
        if !trim_ows(te[0]).eq_ignore_ascii_case(b"chunked") {
            return Err("4xx");
        }
        return Ok(RefBody::Chunked);
    }
    let upgrade_ws = headers.iter().any(|h| h.0 == b"upgrade" && trim_ows(&h.1).eq_ignore_ascii_case(b"websocket"));
    if upgrade_ws {
        // actix: an `Upgrade: websocket` request hands the rest of the connection to the upgrade
        return Ok(RefBody::Tunnel);
    }
    // RFC 1945 section 7.2.2: an HTTP/1.0 POST must carry a valid Content-Length
    if version == 0 && method == b"POST" && len.is_none() {
        return Err("4xx");
    }
    match len {
        Some(0) | None => Ok(if method == b"CONNECT" { RefBody::Tunnel } else { RefBody::None }),
        Some(n) => Ok(RefBody::Length(n)),
    }
}

fn reference(s: &[u8]) -> RefOut {
    let mut msgs = vec![];
    let mut spans: Vec<(usize, Option<usize>)> = vec![];
    let mut classes = Classes::default();
    let mut p = 0usize;
    loop {
        // ---- head
        let rest = &s[p..];
        let Some(hl) = rest.windows(4).position(|x| x == b"\r\n\r\n") else {
            // no complete head: oversized once MAX_BUFFER_SIZE bytes are waiting
            if rest.len() >= MAX_BUFFER_SIZE {
                return RefOut { spans, msgs, end: RefEnd::Rejected("431"), classes };
            }
            return RefOut { spans, msgs, end: RefEnd::NeedMore { rest: rest.len() }, classes };
        };
        let head_len = hl + 4;
        if head_len >= MAX_BUFFER_SIZE && head_len < MAX_BUFFER_SIZE + HW_BUFFER_SIZE {
            classes.f19_head_in_band = true;
        }
        if head_len >= MAX_BUFFER_SIZE {
            classes.long_heads.push(head_len);
        }
        let mut lines: Vec<&[u8]> = vec![];
        let mut q = 0;
        let h = &rest[..hl + 2];
        while q < h.len() {
            let e = h[q..].windows(2).position(|x| x == b"\r\n").unwrap() + q;
            lines.push(&h[q..e]);
            q = e + 2;
        }
        let bad = |c| RefOut { spans: spans.clone(), msgs: msgs.clone(), end: RefEnd::Rejected(c), classes: classes.clone() };
        if lines.iter().any(|l| l.contains(&b'\r') || l.contains(&b'\n')) {
            return bad("4xx");
        }
        let rl: Vec<&[u8]> = lines[0].split(|&b| b == b' ').collect();
        if rl.len() != 3 || rl[0].is_empty() || !rl[0].iter().all(|&b| is_tchar(b)) || rl[1].is_empty() {
            return bad("4xx");
        }
        let version = match rl[2] {
            b"HTTP/1.1" => 1,
            b"HTTP/1.0" => 0,
            _ => return bad("4xx"),
        };
        let mut headers: Vec<(Vec<u8>, Vec<u8>)> = vec![];
        for l in &lines[1..] {
            let Some(c) = l.iter().position(|&b| b == b':') else { return bad("4xx") };
            let (n, v) = (&l[..c], &l[c + 1..]);
            if n.is_empty() || !n.iter().all(|&b| is_tchar(b)) || v.iter().any(|&b| b != b'\t' && (b < 0x20 || b == 0x7f)) {
                return bad("4xx");
            }
            if headers.len() == MAX_HEADERS {
                return bad("431");
            }
            headers.push((n.to_ascii_lowercase(), trim_ows(v).to_vec()));
        }
        if head_len >= MAX_BUFFER_SIZE {
            return bad("431");
        }
        let kind = match ref_body_kind(rl[0], version, &headers) {
            Ok(k) => k,
            Err(c) => return bad(c),
        };
        headers.sort_by(|a, b| a.0.cmp(&b.0));
        msgs.push(Msg { method: rl[0].to_vec(), target: rl[1].to_vec(), version, headers, body: vec![], done: false });
        p += head_len;
        spans.push((p, None));
        let m = msgs.last_mut().unwrap();
        // ---- body
        match kind {
            RefBody::None => spans.last_mut().unwrap().1 = Some(p),
            RefBody::Tunnel => {
                m.body.extend_from_slice(&s[p..]);
                return RefOut { spans, msgs, end: RefEnd::Tunnel, classes };
            }
            RefBody::Length(n) => {
                let avail = (s.len() - p) as u64;
                let k = n.min(avail) as usize;
                m.body.extend_from_slice(&s[p..p + k]);
                p += k;
                if (k as u64) < n {
                    return RefOut { spans, msgs, end: RefEnd::NeedMore { rest: 0 }, classes };
                }
                m.done = true;
                spans.last_mut().unwrap().1 = Some(p);
            }
            RefBody::Chunked => {
                // chunked-body = *chunk last-chunk CRLF      (no trailers: unsupported by the server)
                // chunk = 1*HEXDIG [BWS] [";" ext] CRLF data CRLF ; last-chunk = 1*"0" [BWS] [";" ext] CRLF
                'chunks: loop {
                    let mut size: u128 = 0;
                    let mut digits = 0;
                    macro_rules! next {
                        () => {{
                            if p >= s.len() {
                                return RefOut { spans, msgs, end: RefEnd::NeedMore { rest: 0 }, classes };
                            }
                            p += 1;
                            s[p - 1]
                        }};
                    }
                    macro_rules! reject {
                        () => {{
                            classes.f22_chunk_error = true;
                            return RefOut { spans, msgs, end: RefEnd::Rejected("chunk"), classes };
                        }};
                    }
                    let mut b = next!();
                    while b.is_ascii_hexdigit() {
                        size = size * 16 + (b as char).to_digit(16).unwrap() as u128;
                        digits += 1;
                        if size > u64::MAX as u128 {
                            reject!();
                        }
                        b = next!();
                    }
                    // class predicate of F3: a size line without any hex digit that is otherwise a
                    // well-formed last-chunk line
                    let no_digit = digits == 0;
                    while b == b' ' || b == b'\t' {
                        b = next!();
                    }
                    if b == b';' {
                        b = next!();
                        while b != b'\r' {
                            if b < 0x09 || (0x0a..=0x1f).contains(&b) || b == 0x7f {
                                reject!();
                            }
                            b = next!();
                        }
                    }
                    if b != b'\r' {
                        reject!();
                    }
                    if no_digit {
                        // empty size line: look ahead whether the implementation's reading (size 0,
                        // then CRLF) is what follows, to classify the case; then reject
                        if s.len() >= p + 3 && &s[p..p + 3] == b"\n\r\n" || s.len() < p + 3 {
                            classes.f3_empty_size_line = true;
                        }
                        reject!();
                    }
                    if next!() != b'\n' {
                        reject!();
                    }
                    if size == 0 {
                        if next!() != b'\r' {
                            reject!();
                        }
                        if next!() != b'\n' {
                            reject!();
                        }
                        msgs.last_mut().unwrap().done = true;
                        spans.last_mut().unwrap().1 = Some(p);
                        break 'chunks;
                    }
                    let avail = (s.len() - p) as u128;
                    let k = size.min(avail) as usize;
                    msgs.last_mut().unwrap().body.extend_from_slice(&s[p..p + k]);
                    p += k;
                    if (k as u128) < size {
                        return RefOut { spans, msgs, end: RefEnd::NeedMore { rest: 0 }, classes };
                    }
                    if next!() != b'\r' {
                        reject!();
                    }
                    if next!() != b'\n' {
                        reject!();
                    }
                }
            }
        }
    }
}

// ------------------------------------------------------------------ oracle
/// which known-finding classes may explain a failure of each oracle component
fn explain(cl: &Classes, allowed: &[&'static str]) -> &'static str {
    for c in allowed {
        let inside = match *c {
            "F19-head-in-band" => cl.f19_head_in_band,
            "F22-chunk-error-no-4xx" => cl.f22_chunk_error,
            _ => false,
        };
        if inside {
            return c;
        }
    }
    ""
}

fn judge(a: &Outcome, base: &Outcome, b: Option<&Disp>, r: &RefOut) -> (bool, String, String) {
    let cl = &r.classes;
    let mut fails: Vec<(String, &'static str)> = vec![]; // (why, class that may explain it)
    // (i) segmentation independence
    if a != base {
        fails.push((
            format!("segmented run differs from baseline run: {} vs {}", show_outcome(a), show_outcome(base)),
            explain(cl, &["F19-head-in-band"]),
        ));
    }
    // (ii) agreement with the RFC reference (on the baseline run)
    let expect_end_ok = |o: &Outcome| -> bool {
        match (&r.end, &o.end) {
            (RefEnd::NeedMore { rest }, End::Need { rest: ir, .. }) => rest == ir,
            (RefEnd::Tunnel, End::Need { rest, mt }) => *rest == 0 && *mt == "stream",
            (RefEnd::Rejected(c), End::Err(e)) => match (*c, *e) {
                ("431", "too_large") => true,
                ("4xx", "header") | ("4xx", "other") => true,
                ("chunk", "io") => true, // which response goes out is judged at dispatcher level (F22)
                _ => false,
            },
            _ => false,
        }
    };
    if base.msgs != r.msgs || !expect_end_ok(base) {
        fails.push((
            format!("implementation differs from RFC 7230 reference: impl {} ; reference end {:?} with {} message(s)", show_outcome(base), r.end, r.msgs.len()),
            explain(cl, &["F19-head-in-band"]),
        ));
    }
    // (iii) dispatcher level
    if let Some(d) = b {
        let nref = r.msgs.len();
        match &r.end {
            RefEnd::Rejected(c) => {
                let want: u16 = if *c == "431" { 431 } else { 400 };
                if d.own_statuses != vec![want] {
                    let allowed: &[&'static str] = if *c == "chunk" {
                        &["F22-chunk-error-no-4xx"]
                    } else {
                        &["F19-head-in-band"]
                    };
                    fails.push((format!("rejected stream ({c}): dispatcher's own responses {:?}, want [{want}]", d.own_statuses), explain(cl, allowed)));
                }
                if !d.own_last {
                    fails.push((
                        "a handler response was written after the rejection response: bytes after the point of rejection were interpreted as a request".into(),
                        explain(cl, &["F19-head-in-band"]),
                    ));
                }
                if !d.closed {
                    fails.push(("rejected stream: connection not closed".into(), explain(cl, &["F19-head-in-band"])));
                }
                if d.dispatched > nref {
                    fails.push((
                        format!("{} requests dispatched, only {} precede the rejection point", d.dispatched, nref),
                        explain(cl, &["F19-head-in-band"]),
                    ));
                }
                if *c != "chunk" && d.dispatched < nref {
                    fails.push((
                        format!("only {} requests dispatched, {} precede the rejection point", d.dispatched, nref),
                        explain(cl, &["F19-head-in-band"]),
                    ));
                }
            }
            _ => {
                if !d.own_statuses.is_empty() || d.dispatched != nref {
                    fails.push((
                        format!("accepted stream: dispatcher's own responses {:?}, dispatched {} of {}", d.own_statuses, d.dispatched, nref),
                        explain(cl, &["F19-head-in-band"]),
                    ));
                }
            }
        }
    }
    // (iii') every request the application was handed is the reference's request at that position:
    // method, target, version, header list; and, when the reference has its body complete, exactly
    // those body bytes (a body cut short by a later I/O-class drop is the F22 class)
    if let Some(d) = b {
        for (i, m) in d.seen.iter().enumerate() {
            let Some(rm) = r.msgs.get(i) else { break };
            if (&m.method, &m.target, m.version, &m.headers) != (&rm.method, &rm.target, rm.version, &rm.headers) {
                fails.push((
                    format!("request #{i} handed to the service differs from the reference: service saw {} ; reference {}", show_msg(m), show_msg(rm)),
                    explain(cl, &["F19-head-in-band"]),
                ));
            } else if rm.done && !matches!(r.end, RefEnd::Rejected("chunk")) && (m.body != rm.body || !m.done) {
                fails.push((
                    format!("request #{i}: body seen by the service ({}, complete={}) differs from the reference body ({})", show_bytes(&m.body), m.done, show_bytes(&rm.body)),
                    explain(cl, &["F19-head-in-band"]),
                ));
            }
        }
    }
    if fails.is_empty() {
        return (true, String::new(), String::new());
    }
    // an unexplained failure wins; otherwise report the first explained one
    if let Some(f) = fails.iter().find(|f| f.1.is_empty()) {
        return (false, f.0.clone(), String::new());
    }
    (false, fails[0].0.clone(), fails[0].1.to_string())
}

fn baseline_seg(len: usize) -> Seg {
    if len < MAX_BUFFER_SIZE {
        Seg::Cuts(vec![])
    } else {
        Seg::Every(4096)
    }
}

fn emit_case(em: &mut Emitter, id: String, mut case: Case) {
    let data = stream_of(&case.pieces);
    if let Seg::Cuts(c) = &case.seg {
        case.seg = Seg::Cuts(sanitize_cuts(c, data.len()));
    }
    let segs = segments(&case.seg, &data);
    let mut r = reference(&data);
    // class F19 (predicate on the case: head lengths and read sizes): the TooLarge test is made only
    // when the tokenizer says Partial, so a head of >= MAX_BUFFER_SIZE bytes is still accepted when one
    // read carries the buffer from below MAX_BUFFER_SIZE past the end of the head.  The width of the
    // band is therefore the largest single read: HW_BUFFER_SIZE for the 8 KiB reads of the read loop's
    // own buffer growth, the largest offered segment when the socket delivers more at once (the spare
    // capacity of read_buf grows by doubling).
    let max_read = segs.iter().map(|s| s.len()).max().unwrap_or(0).max(HW_BUFFER_SIZE);
    if r.classes.long_heads.iter().any(|&h| h < MAX_BUFFER_SIZE + max_read) {
        r.classes.f19_head_in_band = true;
    }
    // class F25: at the end of some read, a request other than the first one has its body in flight
    let mut ends = vec![];
    let mut acc = 0;
    for sg in &segs {
        acc += sg.len();
        ends.push(acc);
    }
    r.classes.f25_pipelined_body_split = r.spans.iter().enumerate().any(|(i, (he, be))| {
        i >= 1 && ends.iter().any(|&c| *he <= c && be.map_or(true, |e| c < e))
    });
    // (was finding F25, repaired by /repo ceacb93: the dispatched-request count is compared in
    // these cases too; the predicate is kept as a distribution tag)
    if case.with_b != 0 {
        case.with_b = 1;
    }
    let res = catch(|| {
        let a = run_a(&segs);
        let base = run_a(&segments(&baseline_seg(data.len()), &data));
        let b = if case.with_b != 0 { Some(run_b(&segs, &case.delays, case.wblock)) } else { None };
        (a, base, b)
    });
    let mut tags = case.tags.clone();
    tags.push(format!("seg:{}", match &case.seg { Seg::Cuts(c) if c.is_empty() => "whole".to_string(), Seg::Cuts(c) => format!("cuts{}", if c.len() <= 6 { "1-6" } else { "7+" }), Seg::Every(1) => "every1".into(), Seg::Every(_) => "everyk".into() }));
    tags.push(format!("len:{}", match data.len() { 0..=255 => "0-255", 256..=4095 => "256-4k", 4096..=65535 => "4k-64k", _ => "64k+" }));
    tags.push(format!("ref:{}", match &r.end { RefEnd::NeedMore { .. } => "needmore", RefEnd::Tunnel => "tunnel", RefEnd::Rejected(c) => *c }));
    tags.push(format!("msgs:{}", r.msgs.len().min(7)));
    if case.with_b != 0 {
        tags.push("runner:B".into());
    }
    if r.classes.f25_pipelined_body_split {
        tags.push("split:pipelined-body".into());
    }
    if r.classes.f3_empty_size_line {
        tags.push("chunk:empty-size-line".into());
    }
    if r.classes.f19_head_in_band {
        tags.push("class:F19".into());
    }
    if r.classes.f22_chunk_error {
        tags.push("class:F22".into());
    }
    tags.sort();
    tags.dedup();
    let nontrivial = r.msgs.len() >= 2 || !matches!(r.end, RefEnd::NeedMore { .. }) || r.msgs.iter().any(|m| !m.body.is_empty());
    let input = serde_json::to_value(&case).unwrap();
    match res {
        Ok((a, base, b)) => {
            let (ok, why, class) = judge(&a, &base, b.as_ref(), &r);
            let vb = match &b {
                None => W::T("nob", vec![]),
                Some(d) => {
                    let is_err = matches!(a.end, End::Err(_));
                    let is_io = a.end == End::Err("io");
                    let reqs = if is_io {
                        W::T("none", vec![])
                    } else {
                        W::T("some", vec![W::L(d.reqs.iter().map(|(m, t)| { let mut f = field(m); f.extend(field(t)); W::Num(f) }).collect())])
                    };
                    W::T("b", vec![W::L(d.own_statuses.iter().map(|s| W::N(*s as u128)).collect()), reqs, W::N(if is_err { d.closed as u128 } else { 2 })])
                }
            };
            let v = W::T("c01", vec![w_outcome(&a), vb]);
            let show = format!(
                "{}{}",
                show_outcome(&a),
                b.as_ref()
                    .map(|d| {
                        let mut d2 = d.clone();
                        let seen = std::mem::take(&mut d2.seen);
                        format!(" disp={:?} seen=[{}]", d2, seen.iter().map(show_msg).collect::<Vec<_>>().join(" | "))
                    })
                    .unwrap_or_default()
            );
            em.emit(CaseOut {
                id,
                input,
                coq_case: Some(coq_case(&case, b.as_ref().map(|d| &d.polls[..]))),
                expect: Some(v.coq()),
                sig: show.clone(),
                impl_show: show,
                oracle_ok: ok,
                oracle_why: why,
                known_class: class,
                nontrivial,
                tags,
            });
        }
        Err(p) => {
            em.panics += 1;
            em.emit(CaseOut {
                id,
                input,
                coq_case: Some(coq_case(&case, None)),
                expect: None,
                sig: "panic".into(),
                impl_show: format!("PANIC {p}"),
                oracle_ok: false,
                oracle_why: format!("implementation panicked: {p}"),
                known_class: String::new(),
                nontrivial,
                tags,
            });
        }
    }
}

// ------------------------------------------------------------------ generator
struct Builder {
    pieces: Vec<Piece>,
    pos: usize,
    marks: Vec<usize>,
    tags: BTreeSet<String>,
}
impl Builder {
    fn new() -> Self {
        Builder { pieces: vec![], pos: 0, marks: vec![], tags: BTreeSet::new() }
    }
    fn lit(&mut self, b: &[u8]) {
        if b.is_empty() {
            return;
        }
        self.pos += b.len();
        if let Some(Piece::Lit(h)) = self.pieces.last_mut() {
            h.push_str(&hex(b));
        } else {
            self.pieces.push(Piece::Lit(hex(b)));
        }
    }
    fn rep(&mut self, n: usize, b: u8) {
        if n == 0 {
            return;
        }
        self.pos += n;
        self.pieces.push(Piece::Rep(n, b));
    }
    fn mark(&mut self) {
        self.marks.push(self.pos);
    }
    fn tag(&mut self, t: &str) {
        self.tags.insert(t.to_string());
    }
    /// body data: short = random bytes, long = random edges around a run
    fn data(&mut self, rng: &mut Rng, n: usize) {
        if n <= 48 {
            let v: Vec<u8> = (0..n).map(|_| *rng.pick(b"abcxyz019 \r\n:;GET/HTP\x00\xff")).collect();
            self.lit(&v);
        } else {
            let e: Vec<u8> = (0..16).map(|_| *rng.pick(b"abc\r\n0;\xfe")).collect();
            self.lit(&e);
            self.rep(n - 32, *rng.pick(b"xq\n0"));
            self.lit(&e);
        }
    }
}

const METHODS: &[&str] = &["GET", "POST", "PUT", "DELETE", "HEAD", "OPTIONS", "PATCH"];
const TARGETS: &[&str] = &["/", "/a", "/a/b.txt", "/x?y=1&z=2", "/~u/_-"];

#[derive(Clone, Debug, PartialEq)]
enum Framing {
    None,
    Cl(usize),
    Chunked,
}

/// writes one well-formed request; returns true if it is "plain" (HTTP/1.1, no connection /
/// upgrade / expect header) so that the dispatcher keeps the connection open after it
fn gen_valid(b: &mut Builder, rng: &mut Rng, force_plain: bool) -> bool {
    let v11 = force_plain || rng.chance(5, 6);
    let fr = match rng.below(10) {
        0..=2 => Framing::None,
        3..=5 => Framing::Cl(*rng.pick(&[0usize, 1, 1, 5, 17, 300, 9000])),
        _ => if v11 { Framing::Chunked } else { Framing::Cl(3) },
    };
    let mut method = rng.pick(METHODS).to_string();
    if !force_plain && rng.chance(1, 25) {
        method = "CONNECT".into();
    }
    if !v11 && method == "POST" && fr == Framing::None {
        method = "GET".into();
    }
    let mut plain = v11 && method != "CONNECT";
    b.mark(); // body | next head boundary
    b.lit(format!("{} {} HTTP/1.{}\r\n", method, rng.pick(TARGETS), if v11 { 1 } else { 0 }).as_bytes());
    b.tag(if v11 { "ver:1.1" } else { "ver:1.0" });
    let mut hs: Vec<String> = vec![];
    for _ in 0..rng.below(4) {
        hs.push(match rng.below(6) {
            0 => "Host: example.com".into(),
            1 => "x-a: 1".into(),
            2 => "X-A:2  ".into(),
            3 => "Accept: */*; q=0.5, text/html".into(),
            4 => "x-empty:".into(),
            _ => "Content-Type: text/plain".into(),
        });
    }
    if !force_plain && rng.chance(1, 12) {
        hs.push((*rng.pick(&["Connection: keep-alive", "connection: close", "Connection: Upgrade", "Expect: 100-continue", "expect: 100-whatever", "Upgrade: websocket", "upgrade: WebSocket "])).into());
        plain = false;
        b.tag("hdr:connection/expect");
    }
    match &fr {
        Framing::None => b.tag("framing:none"),
        Framing::Cl(n) => {
            hs.insert(rng.below(hs.len() as u64 + 1) as usize, format!("{}:{}{}{}", rng.pick(&["Content-Length", "content-length", "CONTENT-LENGTH"]), rng.pick(&["", " ", "  "]), if rng.chance(1, 8) { format!("00{n}") } else { n.to_string() }, rng.pick(&["", " ", "\t"])));
            b.tag(&format!("framing:cl-{}", match n { 0 => "0", 1 => "1", 2..=300 => "small", _ => "9000" }));
        }
        Framing::Chunked => {
            hs.insert(rng.below(hs.len() as u64 + 1) as usize, format!("{}: {}", rng.pick(&["Transfer-Encoding", "transfer-encoding"]), rng.pick(&["chunked", "Chunked", "CHUNKED", "chunked "])));
            b.tag("framing:chunked");
        }
    }
    for h in hs {
        b.lit(h.as_bytes());
        b.lit(b"\r\n");
    }
    b.lit(b"\r");
    b.mark(); // between CR and LF of the blank line
    b.lit(b"\n");
    b.mark(); // head | body
    match fr {
        Framing::None => {}
        Framing::Cl(n) => b.data(rng, n),
        Framing::Chunked => {
            let k = rng.below(5);
            for _ in 0..k {
                let n = *rng.pick(&[1usize, 15, 16, 255, 4096, 2, 10]);
                b.tag(&format!("chunk:{n}"));
                gen_size_line(b, rng, n);
                b.data(rng, n);
                b.mark(); // data | CRLF
                b.lit(b"\r");
                b.mark();
                b.lit(b"\n");
            }
            gen_size_line(b, rng, 0);
            b.lit(b"\r");
            b.mark();
            b.lit(b"\n");
        }
    }
    plain
}

fn gen_size_line(b: &mut Builder, rng: &mut Rng, n: usize) {
    let mut s = if rng.chance(1, 2) { format!("{:x}", n) } else { format!("{:X}", n) };
    if rng.chance(1, 5) {
        s = format!("{}{}", rng.pick(&["0", "00", "000000000000000000"]), s);
        b.tag("chunk:leading-zeros");
    }
    b.lit(&s.as_bytes()[..1]);
    b.mark(); // inside the size line
    b.lit(&s.as_bytes()[1..]);
    if rng.chance(1, 4) {
        let e: &[u8] = *rng.pick(&[&b";a=b"[..], b" ;x", b";q=\"1 2 3\"", b"\t", b" ", b";\x80\xff", b";", b"; a ; b=c"]);
        b.lit(&e[..1]);
        b.mark();
        b.lit(&e[1..]);
        b.tag("chunk:ext");
    }
    b.lit(b"\r");
    b.mark(); // between CR and LF
    b.lit(b"\n");
}

const MALFORMED: &[&str] = &[
    "cl_te", "cl_dup", "cl_nonnum", "cl_signed", "cl_overflow", "te_other", "te_dup", "te_on_10", "post10_nolen",
    "chunk_bad", "chunk_overflow", "chunk_empty_size", "bad_version", "too_many_headers", "head_oversize", "head_in_band",
    "head_just_below", "head_unterminated",
];

/// writes one request of a malformed class (or a boundary-valid one)
fn gen_malformed(b: &mut Builder, rng: &mut Rng, class: &str) {
    b.tag(&format!("mal:{class}"));
    b.mark();
    let head = |b: &mut Builder, first: &str, hs: &[String]| {
        b.lit(first.as_bytes());
        b.lit(b"\r\n");
        for h in hs {
            b.lit(h.as_bytes());
            b.lit(b"\r\n");
        }
        b.lit(b"\r");
        b.mark();
        b.lit(b"\n");
    };
    let s = |x: &str| x.to_string();
    match class {
        "cl_te" => {
            let mut hs = vec![s("Content-Length: 5"), s("Transfer-Encoding: chunked")];
            if rng.chance(1, 2) {
                hs.reverse();
            }
            head(b, "POST /a HTTP/1.1", &hs);
            b.lit(b"5\r\nhello\r\n0\r\n\r\n");
        }
        "cl_dup" => {
            let v2 = *rng.pick(&["5", "6", "0"]);
            head(b, "POST /a HTTP/1.1", &[s("Content-Length: 5"), s("x-a: 1"), format!("content-length: {v2}")]);
            b.lit(b"hello");
        }
        "cl_nonnum" => {
            let v = *rng.pick(&["abc", "1x", "", "1 2", "0x10", "5,5", "1.0", " ", "٣"]);
            head(b, "POST /a HTTP/1.1", &[format!("Content-Length: {v}")]);
            b.lit(b"hello");
        }
        "cl_signed" => {
            let v = *rng.pick(&["+5", "-5", "+0", "-0", " +5"]);
            head(b, "POST /a HTTP/1.1", &[format!("Content-Length: {v}")]);
            b.lit(b"hello");
        }
        "cl_overflow" => {
            let v = *rng.pick(&["18446744073709551616", "99999999999999999999999", "18446744073709551615"]);
            head(b, "POST /a HTTP/1.1", &[format!("Content-Length: {v}")]);
            b.lit(b"hello");
        }
        "te_other" => {
            let v = *rng.pick(&["gzip", "gzip, chunked", "chunked, gzip", "identity", "chunkedx", "xchunked", "chunked, chunked", "", "chunked;q=1"]);
            head(b, "POST /a HTTP/1.1", &[format!("Transfer-Encoding: {v}")]);
            b.lit(b"5\r\nhello\r\n0\r\n\r\n");
        }
        "te_dup" => {
            let v = *rng.pick(&["chunked", "identity", "gzip"]);
            head(b, "POST /a HTTP/1.1", &[s("Transfer-Encoding: chunked"), format!("transfer-encoding: {v}")]);
            b.lit(b"5\r\nhello\r\n0\r\n\r\n");
        }
        "te_on_10" => {
            let mut hs = vec![s("Transfer-Encoding: chunked")];
            if rng.chance(1, 3) {
                hs.push(s("transfer-encoding: chunked"));
            }
            head(b, "POST /a HTTP/1.0", &hs);
            b.lit(b"5\r\nhello\r\n0\r\n\r\n");
        }
        "post10_nolen" => {
            head(b, "POST /a HTTP/1.0", &[s("x-a: 1")]);
        }
        "chunk_bad" => {
            head(b, "POST /a HTTP/1.1", &[s("Transfer-Encoding: chunked")]);
            if rng.chance(1, 2) {
                b.lit(b"3\r\nabc\r\n");
            }
            let bad: &[u8] = *rng.pick(&[
                &b"zz\r\nab\r\n"[..], b"5\r\nhelloXX\r\n", b"5\r\nhello\rX", b"5\nhello\r\n", b"5;a\x01b\r\nhello\r\n", b" 5\r\nhello\r\n",
                b"5 5\r\nhello\r\n", b"5\r\rhello", b"0\r\nX: y\r\n\r\n", b"0\r\n\rX", b"-1\r\n", b"0x5\r\nhello\r\n", b"5;a\nb\r\nhello\r\n", b"5;\x7f\r\nhello\r\n",
            ]);
            b.lit(&bad[..1]);
            b.mark();
            b.lit(&bad[1..]);
        }
        "chunk_overflow" => {
            head(b, "POST /a HTTP/1.1", &[s("Transfer-Encoding: chunked")]);
            let v = *rng.pick(&["10000000000000000", "f0000000000000003", "ffffffffffffffff0", "FFFFFFFFFFFFFFFFF", "0000010000000000000000"]);
            b.lit(&v.as_bytes()[..3]);
            b.mark();
            b.lit(&v.as_bytes()[3..]);
            b.lit(b"\r\nabc\r\n0\r\n\r\n");
        }
        "chunk_empty_size" => {
            head(b, "POST /a HTTP/1.1", &[s("Transfer-Encoding: chunked")]);
            if rng.chance(1, 2) {
                b.lit(b"3\r\nabc\r\n");
            }
            let v: &[u8] = *rng.pick(&[&b"\r\n\r\n"[..], b";ext\r\n\r\n", b" \r\n\r\n", b"\t;\r\n\r\n"]);
            b.lit(&v[..1]);
            b.mark();
            b.lit(&v[1..]);
        }
        "bad_version" => {
            let v = *rng.pick(&["HTTP/1.2", "HTTP/2.0", "HTXP/1.1", "http/1.1"]);
            head(b, &format!("GET /a {v}"), &[s("x-a: 1")]);
        }
        "too_many_headers" => {
            let n = *rng.pick(&[96usize, 97, 97, 120]);
            let hs: Vec<String> = (0..n).map(|i| format!("x-{i}: {i}")).collect();
            head(b, "GET /a HTTP/1.1", &hs);
        }
        "head_oversize" | "head_in_band" | "head_just_below" | "head_unterminated" => {
            // head length = 16 + 5 + n + 4
            let base = "GET /a HTTP/1.1\r\n".len() + "x-l: ".len() + 4;
            let total = match class {
                "head_oversize" => MAX_BUFFER_SIZE + HW_BUFFER_SIZE + rng.below(3000) as usize,
                "head_in_band" => MAX_BUFFER_SIZE + *rng.pick(&[0usize, 1, 428, 4095, 4096, 4097, 8191]),
                "head_just_below" => MAX_BUFFER_SIZE - 1 - *rng.pick(&[0usize, 1, 100]),
                _ => MAX_BUFFER_SIZE + *rng.pick(&[0usize, 5000, 20000]),
            };
            b.lit(b"GET /a HTTP/1.1\r\nx-l: ");
            b.rep(total - base, b'a');
            if class != "head_unterminated" {
                b.lit(b"\r\n\r");
                b.mark();
                b.lit(b"\n");
            }
        }
        _ => unreachable!(),
    }
}

/// Family "big head" (runner B): a well-framed request whose head length lies strictly between the
/// request payload's 32 KiB buffer constant and the decoder's MAX_BUFFER_SIZE (below the F19 band),
/// or at/above MAX_BUFFER_SIZE + HW_BUFFER_SIZE (always refused), as the first request of the
/// connection or behind 1-2 answered keep-alive requests, optionally followed by one more request,
/// under whole / 4 KiB / 16 KiB / boundary-cut segmentations.  `variant` enumerates the family
/// deterministically (used for the corpus lines); random choices come from `rng`.
fn gen_big_head_case(rng: &mut Rng, thorough: bool) -> Case {
    let mut b = Builder::new();
    b.tag("family:big-head");
    let before = *rng.pick(&[0usize, 1, 1, 2]);
    b.tag(if before == 0 { "bighead:first-request" } else { "bighead:keep-alive-later-request" });
    for i in 0..before {
        b.mark();
        match rng.below(3) {
            0 => b.lit(format!("GET /first{i} HTTP/1.1\r\nHost: x\r\n\r\n").as_bytes()),
            1 => b.lit(format!("POST /first{i} HTTP/1.1\r\nContent-Length: 3\r\n\r\nabc").as_bytes()),
            _ => b.lit(format!("PUT /first{i} HTTP/1.1\r\nTransfer-Encoding: chunked\r\n\r\n2\r\nhi\r\n0\r\n\r\n").as_bytes()),
        }
    }
    let start = b.pos;
    let oversize = rng.chance(1, 4);
    // head = request line + fixed headers + `x-big: ` <run> CRLF + `x-tail: z` CRLF + framing + CRLF
    let (method, framing): (&str, &str) = *rng.pick(&[
        ("GET", ""),
        ("POST", "Content-Length: 5\r\n"),
        ("PUT", "Transfer-Encoding: chunked\r\n"),
    ]);
    let pre = format!("{method} /big HTTP/1.1\r\nHost: example.com\r\nx-big: ");
    let post = format!("\r\nx-tail: z\r\n{framing}\r\n");
    let fixed = pre.len() + post.len();
    let total = if oversize {
        b.tag("bighead:oversize(>=MAX+HW)");
        MAX_BUFFER_SIZE + HW_BUFFER_SIZE + *rng.pick(&[0usize, 1, 2000])
    } else {
        let t = *rng.pick(&[32_769usize, 33_000, 40_000, 49_152, 65_535, 65_536, 65_537, 70_000, 100_000, 131_000, MAX_BUFFER_SIZE - 1]);
        b.tag(match t { 0..=40_000 => "bighead:32k-40k", 40_001..=65_537 => "bighead:40k-64k", _ => "bighead:64k-128k" });
        t
    };
    b.mark();
    b.lit(pre.as_bytes());
    // the run is split in two header fields in some cases (more than one long field)
    if rng.chance(1, 3) {
        let first = (total - fixed) / 3;
        b.rep(first, b'a');
        b.lit(b"\r\nx-more: ");
        b.rep(total - fixed - first - "\r\nx-more: ".len(), b'b');
    } else {
        b.rep(total - fixed, b'a');
    }
    let unterminated = oversize && rng.chance(1, 3);
    if unterminated {
        b.tag("bighead:unterminated");
    } else {
        b.lit(post.as_bytes());
        b.mark();
        match method {
            "POST" => b.lit(b"hello"),
            "PUT" => b.lit(b"3;x=y\r\nabc\r\n2\r\nde\r\n0\r\n\r\n"),
            _ => {}
        }
        if rng.chance(1, 2) {
            b.mark();
            b.lit(b"GET /after HTTP/1.1\r\nHost: x\r\n\r\n");
            b.tag("bighead:request-after");
        }
    }
    let len = b.pos;
    let seg = match if oversize { *rng.pick(&[1u64, 5]) } else { rng.below(if thorough { 6 } else { 5 }) } {
        0 => Seg::Cuts(vec![]),
        1 => Seg::Every(4096),
        2 => Seg::Every(16384),
        3 => {
            // cuts around 32 KiB and 64 KiB, counted from the start of the stream and of the head
            let mut c = vec![];
            for base in [0usize, start] {
                for k in [32_768usize, 65_536] {
                    c.extend([base + k - 1, base + k, base + k + 1]);
                }
            }
            c.extend(b.marks.iter().copied());
            Seg::Cuts(sanitize_cuts(&c, len))
        }
        4 => {
            let k = *rng.pick(&[32_768usize, 65_536]);
            let d = *rng.pick(&[0usize, 1]);
            Seg::Cuts(sanitize_cuts(&[start, start + k - 1 + d, start + k + d], len))
        }
        _ => Seg::Every(*rng.pick(&[8192usize, 5000])),
    };
    let (mut delays, mut wblock) = (vec![], 0u8);
    if rng.chance(1, 3) {
        delays = (0..before + 2).map(|_| *rng.pick(&[0u8, 1, 2, 3])).collect();
        wblock = *rng.pick(&[0u8, 0, 1]);
        b.tag("sched:slow-handlers");
    }
    Case { pieces: b.pieces.clone(), seg, with_b: 1, delays, wblock, tags: b.tags.into_iter().collect() }
}

fn gen_case(rng: &mut Rng, thorough: bool) -> Case {
    if rng.chance(1, if thorough { 12 } else { 25 }) {
        return gen_big_head_case(rng, thorough);
    }
    let mut b = Builder::new();
    let malformed = rng.chance(1, 4);
    let n = rng.range(1, 6) as usize;
    let bad_at = if malformed { rng.below(n as u64) as usize } else { usize::MAX };
    let mut class = *rng.pick(MALFORMED);
    // streams of >= 128 KiB are expensive to evaluate in Coq: fewer of them in the quick tier
    if !thorough && class.starts_with("head_") && !rng.chance(1, 4) {
        class = *rng.pick(&MALFORMED[..14]);
    }
    let big = malformed && class.starts_with("head_");
    // runner B on a fraction of the cases; its requests before the last one must be "plain"
    let want_b = rng.chance(if thorough { 1 } else { 1 }, 3) && class != "head_in_band";
    let mut all_plain = true;
    for i in 0..n {
        if i == bad_at {
            gen_malformed(&mut b, rng, class);
        } else {
            let p = gen_valid(&mut b, rng, want_b && i + 1 < n.min(bad_at.saturating_add(1)));
            if i + 1 < n && i < bad_at {
                all_plain &= p;
            }
        }
    }
    // truncation of the stream (a request still in flight when the client stops sending)
    let len = b.pos;
    b.mark();
    let truncate = !big && rng.chance(1, 10);
    let mut pieces = b.pieces.clone();
    let mut len = len;
    if truncate && len > 2 {
        let keep = rng.range(1, len as u64 - 1) as usize;
        pieces = truncate_pieces(&pieces, keep);
        len = keep;
        b.tag("truncated");
    }
    let marks: Vec<usize> = b.marks.iter().copied().filter(|&m| m > 0 && m < len).collect();
    let seg = if len >= MAX_BUFFER_SIZE {
        // reads of at most HW_BUFFER_SIZE bytes, as the dispatcher's read loop bounds them
        // (each read re-tokenizes the buffered head, in the model as in the code: large reads
        // only in the quick tier)
        match if thorough { rng.below(4) } else { rng.below(3) } {
            0 => Seg::Every(4096),
            1 => Seg::Every(8192),
            2 => Seg::Every(*rng.pick(if thorough { &[1000usize, 5000, 4095, 7777][..] } else { &[5000usize, 7777][..] })),
            _ => {
                let mut c: Vec<usize> = (1..=len / 4096).map(|i| i * 4096).collect();
                for _ in 0..4 {
                    c.push(rng.range(1, len as u64 - 1) as usize);
                }
                c.extend(marks.iter().copied());
                Seg::Cuts(sanitize_cuts(&c, len))
            }
        }
    } else {
        match rng.below(10) {
            0 => Seg::Cuts(vec![]),
            // (1-byte reads of long streams only in the thorough tier: the model's body accumulator
            // is quadratic in the number of chunks)
            1 | 2 => Seg::Every(if len <= 3000 || (thorough && len <= 12000) { 1 } else { *rng.pick(&[5usize, 13, 100]) }),
            3 => Seg::Every(*rng.pick(&[2usize, 3, 7, 64, 1024])),
            4 | 5 => {
                let k = rng.range(1, 6);
                let c: Vec<usize> = (0..k).map(|_| rng.range(1, (len as u64).max(2) - 1) as usize).collect();
                Seg::Cuts(sanitize_cuts(&c, len))
            }
            6 => Seg::Cuts(sanitize_cuts(&marks, len)), // every structural boundary
            _ => {
                // a few structural boundaries, possibly shifted by one
                let k = rng.range(1, 4);
                let mut c = vec![];
                for _ in 0..k {
                    if !marks.is_empty() {
                        let m = *rng.pick(&marks) as i64 + *rng.pick(&[0i64, 0, 0, 1, -1]);
                        if m > 0 {
                            c.push(m as usize);
                        }
                    }
                }
                Seg::Cuts(sanitize_cuts(&c, len))
            }
        }
    };
    let nseg = match &seg { Seg::Every(k) => len / k + 1, Seg::Cuts(c) => c.len() + 1 };
    let with_b = (want_b && all_plain && nseg <= 3000) as u8;
    // runner B schedules: slow handlers (Pending for a few polls) and blocked socket writes, so
    // that poll_request runs again while earlier pipelined requests are still in flight
    let (mut delays, mut wblock) = (vec![], 0u8);
    if with_b != 0 && rng.chance(2, 3) {
        delays = (0..n).map(|_| *rng.pick(&[0u8, 0, 1, 2, 3, 4, 7])).collect();
        if rng.chance(1, 2) {
            delays[0] = *rng.pick(&[1u8, 2, 3, 5]);
        }
        wblock = *rng.pick(&[0u8, 0, 1, 2, 5]);
        b.tag("sched:slow-handlers");
        if wblock > 0 {
            b.tag("sched:blocked-writes");
        }
        if malformed && bad_at >= 1 && bad_at + 1 < n {
            b.tag("sched:malformed-behind-slow+more-after");
        }
    }
    Case { pieces, seg, with_b, delays, wblock, tags: b.tags.into_iter().collect() }
}

fn truncate_pieces(ps: &[Piece], keep: usize) -> Vec<Piece> {
    let mut out = vec![];
    let mut left = keep;
    for p in ps {
        if left == 0 {
            break;
        }
        match p {
            Piece::Lit(h) => {
                let n = h.len() / 2;
                if n <= left {
                    out.push(p.clone());
                    left -= n;
                } else {
                    out.push(Piece::Lit(h[..2 * left].to_string()));
                    left = 0;
                }
            }
            Piece::Rep(n, b) => {
                let k = (*n).min(left);
                out.push(Piece::Rep(k, *b));
                left -= k;
            }
        }
    }
    out
}

fn main() {
    let args = parse_args();
    let mut em = Emitter::default();
    for (id, j) in args.fixed_inputs() {
        let case: Case = serde_json::from_value(j).expect("case");
        emit_case(&mut em, id, case);
    }
    if args.case.is_none() {
        let mut rng = Rng::new(args.seed);
        let n = args.n.unwrap_or(if args.thorough() { 3000 } else { 150 });
        for i in 0..n {
            let mut r = rng.fork();
            let case = gen_case(&mut r, args.thorough());
            emit_case(&mut em, format!("gen-{i}"), case);
        }
    }
    em.finish();
}
