//! C09 — App routing picks the first registered match and exposes exactly its parameters.
//!
//! Generator of route tables (nested scopes / resources / routes / guards / default services /
//! app_data) and requests derived from them; implementation runner (`App::new()…` +
//! `actix_web::test::init_service` + `call_service`, every handler reports its identity,
//! `match_info`, `match_pattern()` and the resolved `app_data`); property oracle (a brute-force
//! "first registered match" search over the generated table that uses `ResourceDef` only to match
//! ONE pattern against the not-yet-matched remainder, its own guard evaluation, its own reference
//! percent-decoder and its own data stack); printer of the case as a Gallina term of
//! `AV.Run.RunC09.case`.  Paths are ASCII (the matcher model of C10 is byte-level).

use std::rc::Rc;

use actix_router::{Path, ResourceDef};
use actix_web::{
    dev::{AppService, HttpServiceFactory},
    guard::{self, Guard},
    http::Method,
    test, web, App, HttpRequest, HttpResponse, Resource, Scope,
};
use serde::{Deserialize, Serialize};
use vh::*;

// ------------------------------------------------------------------------------------ case type
#[derive(Serialize, Deserialize, Clone, Debug, PartialEq)]
enum Seg {
    C(String),     // constant text
    D(String),     // {name}
    X(String, u8), // {name:regex} with the regex taken from RE_MENU
    T(String),     // {name}*  (last segment only)
}
#[derive(Serialize, Deserialize, Clone, Debug, PartialEq)]
struct Pattern(Vec<Seg>);
#[derive(Serialize, Deserialize, Clone, Debug)]
enum Pats {
    S(Pattern),
    L(Vec<Pattern>),
}
#[derive(Serialize, Deserialize, Clone, Debug)]
enum G {
    M(u8),
    H(u8, u8),
    Host(u8),
    All(Vec<G>),
    Any(Vec<G>),
    Not(Box<G>),
}
type Data = Vec<(u8, u32)>;
#[derive(Serialize, Deserialize, Clone, Debug)]
enum Node {
    R { pats: Pats, g: Vec<G>, routes: Vec<(Vec<G>, u32)>, dflt: Option<u32>, data: Option<Data> },
    S {
        prefix: Pattern,
        g: Vec<G>,
        kids: Vec<Node>,
        dflt: Option<u32>,
        data: Option<Data>,
        /// the builder calls that register the above (None = services, default, data in that order)
        #[serde(default)]
        plan: Option<Vec<Call>>,
    },
}
/// one builder call on a scope / the App / a `ServiceConfig`
#[derive(Serialize, Deserialize, Clone, Debug)]
enum Call {
    /// `.service(kids[i])`
    S(usize),
    /// `.default_service(handler id)`
    D(u32),
    /// `.app_data(K<k>(v))`
    A(u8, u32),
    /// `.configure(|cfg| { calls })`
    C(Vec<Call>),
}
#[derive(Serialize, Deserialize, Clone, Debug)]
struct AppT {
    kids: Vec<Node>,
    dflt: Option<u32>,
    data: Data,
    #[serde(default)]
    plan: Option<Vec<Call>>,
}

/// a direct `.default_service(..)` followed later by a direct `.configure(..)`
fn default_before_configure(plan: &[Call]) -> bool {
    let d = plan.iter().position(|c| matches!(c, Call::D(_)));
    let c = plan.iter().rposition(|c| matches!(c, Call::C(_)));
    matches!((d, c), (Some(d), Some(c)) if d < c)
}
fn canon_plan(nkids: usize, dflt: &Option<u32>, data: &[(u8, u32)]) -> Vec<Call> {
    let mut v: Vec<Call> = (0..nkids).map(Call::S).collect();
    if let Some(d) = dflt {
        v.push(Call::D(*d));
    }
    v.extend(data.iter().map(|(k, x)| Call::A(*k, *x)));
    v
}
fn flatten<'a>(calls: &'a [Call], out: &mut Vec<&'a Call>) {
    for c in calls {
        match c {
            Call::C(inner) => flatten(inner, out),
            other => out.push(other),
        }
    }
}
/// a plan must denote the abstract table it is attached to: the services in order, the LAST
/// default call = the table's default, the data inserts in order = the table's data
fn plan_denotes(plan: &[Call], nkids: usize, dflt: &Option<u32>, data: &[(u8, u32)]) -> bool {
    let mut flat = vec![];
    flatten(plan, &mut flat);
    let svcs: Vec<usize> = flat.iter().filter_map(|c| if let Call::S(i) = c { Some(*i) } else { None }).collect();
    let last_d = flat.iter().rev().find_map(|c| if let Call::D(d) = c { Some(*d) } else { None });
    let dat: Vec<(u8, u32)> = flat.iter().filter_map(|c| if let Call::A(k, v) = c { Some((*k, *v)) } else { None }).collect();
    svcs == (0..nkids).collect::<Vec<_>>() && last_d == *dflt && dat == data
}
fn check_plans(kids: &[Node]) {
    for k in kids {
        if let Node::S { kids, dflt, data, plan, .. } = k {
            if let Some(p) = plan {
                assert!(plan_denotes(p, kids.len(), dflt, data.as_deref().unwrap_or(&[])), "plan does not denote the table");
            }
            check_plans(kids);
        }
    }
}
#[derive(Serialize, Deserialize, Clone, Debug)]
struct Rq {
    m: u8,
    host: Option<u8>,
    hdrs: Vec<(u8, u8)>,
    path: String,
}
#[derive(Serialize, Deserialize, Clone, Debug)]
struct Case {
    app: AppT,
    reqs: Vec<Rq>,
}

/// must agree with `re_menu` of coq/theories/Run/RunC09.v
const RE_MENU: &[&str] = &[r"\d+", "[a-z]+", r"\w+", r"[a-z]+\d*", "[^/]*", "[a-f0-9]{2}", ".+", r"\d+-\d+", r"[a-z]\d"];
const METHODS: &[Method] = &[Method::GET, Method::POST, Method::PUT, Method::DELETE];
const HOSTS: &[&str] = &["a.test", "b.test"];
const HNAMES: &[&str] = &["x-a", "x-b"];
const HVALS: &[&str] = &["1", "2", "3"];

fn pattern_text(p: &Pattern) -> String {
    let mut s = String::new();
    for sg in &p.0 {
        match sg {
            Seg::C(c) => s.push_str(c),
            Seg::D(n) => s.push_str(&format!("{{{n}}}")),
            Seg::X(n, k) => s.push_str(&format!("{{{n}:{}}}", RE_MENU[*k as usize])),
            Seg::T(n) => s.push_str(&format!("{{{n}}}*")),
        }
    }
    s
}
fn pats_texts(p: &Pats) -> Vec<String> {
    match p {
        Pats::S(p) => vec![pattern_text(p)],
        Pats::L(l) => l.iter().map(pattern_text).collect(),
    }
}
/// what `ensure_leading_slash` / `insert_slash` make of a pattern text (re-stated, not imported)
fn slashed(t: &str) -> String {
    if !t.is_empty() && !t.starts_with('/') {
        format!("/{t}")
    } else {
        t.to_string()
    }
}

// ------------------------------------------------------------------------------- Gallina printer
fn q(s: &str) -> String {
    format!("\"{}\"", s.replace('"', "\"\""))
}
fn coq_pattern(p: &Pattern) -> String {
    let tail = matches!(p.0.last(), Some(Seg::T(_)));
    let segs = coq_list(&p.0, |s| match s {
        Seg::C(c) => format!("C {}", q(c)),
        Seg::D(n) => format!("D {}", q(n)),
        Seg::X(n, k) => format!("X {} {}", q(n), k),
        Seg::T(n) => format!("T {}", q(n)),
    });
    format!("{} {}", if tail { "PT" } else { "P" }, segs)
}
fn coq_pats(p: &Pats) -> String {
    match p {
        Pats::S(p) => format!("(Single ({}))", coq_pattern(p)),
        Pats::L(l) => format!("(PList {})", coq_list(l, |p| format!("({})", coq_pattern(p)))),
    }
}
fn coq_guard(g: &G) -> String {
    match g {
        G::M(m) => format!("GMethod {m}"),
        G::H(n, v) => format!("GHeader {n} {v}"),
        G::Host(h) => format!("GHost {h}"),
        G::All(l) => format!("GAll {}", coq_list(l, coq_guard)),
        G::Any(l) => format!("GAny {}", coq_list(l, coq_guard)),
        G::Not(g) => format!("GNot ({})", coq_guard(g)),
    }
}
fn coq_data(d: &Data) -> String {
    coq_list(d, |(k, v)| format!("({k},{v})"))
}
fn coq_calls(plan: &[Call], kids: &[Node]) -> String {
    coq_list(plan, |c| match c {
        Call::S(i) => coq_node(&kids[*i]),
        Call::D(d) => format!("BDefault {d}"),
        Call::A(k, v) => format!("BData {k} {v}"),
        Call::C(inner) => format!("BConfigure {}", coq_calls(inner, kids)),
    })
}
fn coq_node(n: &Node) -> String {
    match n {
        Node::R { pats, g, routes, dflt, data } => format!(
            "BRes {} {} {} {} {}",
            coq_pats(pats),
            coq_list(g, coq_guard),
            coq_list(routes, |(gs, id)| format!("({},{})", coq_list(gs, coq_guard), id)),
            coq_opt(dflt, |d| d.to_string()),
            coq_opt(data, coq_data)
        ),
        Node::S { prefix, g, kids, dflt, data, plan } => {
            let canon = canon_plan(kids.len(), dflt, data.as_deref().unwrap_or(&[]));
            format!(
                "BScope ({}) {} {}",
                coq_pattern(prefix),
                coq_list(g, coq_guard),
                coq_calls(plan.as_ref().unwrap_or(&canon), kids)
            )
        }
    }
}
fn coq_case(c: &Case) -> String {
    let canon = canon_plan(c.app.kids.len(), &c.app.dflt, &c.app.data);
    format!(
        "K {} {}",
        coq_calls(c.app.plan.as_ref().unwrap_or(&canon), &c.app.kids),
        coq_list(&c.reqs, |r| format!(
            "Rq {} {} {} {}",
            r.m,
            coq_opt(&r.host, |h| h.to_string()),
            coq_list(&r.hdrs, |(n, v)| format!("({n},{v})")),
            q(&r.path)
        ))
    )
}

/// the pattern texts of the table in registration order (mirrors `node_texts` of RunC09.v)
fn node_texts(n: &Node, out: &mut String) {
    match n {
        Node::R { pats, .. } => match pats {
            Pats::S(p) => {
                out.push_str(&pattern_text(p));
                out.push(';');
            }
            Pats::L(l) => {
                out.push('[');
                for p in l {
                    out.push_str(&pattern_text(p));
                    out.push(';');
                }
                out.push(']');
            }
        },
        Node::S { prefix, kids, .. } => {
            out.push_str(&pattern_text(prefix));
            out.push('(');
            for k in kids {
                node_texts(k, out);
            }
            out.push(')');
        }
    }
}

// ------------------------------------------------------------------------------ implementation
struct K0(u32);
struct K1(u32);
struct K2(u32);

async fn report(req: HttpRequest, kind: char, id: u32) -> HttpResponse {
    let mi = req.match_info();
    let mut s = format!("{kind}{id}|");
    for (k, v) in mi.iter() {
        s.push_str(k);
        s.push('=');
        s.push_str(v);
        s.push(',');
    }
    s.push('|');
    s.push_str(mi.unprocessed());
    s.push('|');
    s.push_str(mi.as_str());
    s.push('|');
    match req.match_pattern() {
        Some(p) => s.push_str(&p),
        None => s.push('-'),
    }
    s.push('|');
    let f = |o: Option<u32>| o.map(|v| v.to_string()).unwrap_or_else(|| "-".into());
    s.push_str(&f(req.app_data::<K0>().map(|d| d.0)));
    s.push(',');
    s.push_str(&f(req.app_data::<K1>().map(|d| d.0)));
    s.push(',');
    s.push_str(&f(req.app_data::<K2>().map(|d| d.0)));
    HttpResponse::Ok().body(s)
}

fn mk_guard(g: &G) -> Rc<dyn Guard> {
    match g {
        G::M(m) => Rc::new(guard::Method(METHODS[*m as usize].clone())),
        G::H(n, v) => Rc::new(guard::Header(HNAMES[*n as usize], HVALS[*v as usize])),
        G::Host(h) => Rc::new(guard::Host(HOSTS[*h as usize])),
        G::All(l) => {
            let mut a = guard::All(mk_guard(&l[0]));
            for x in &l[1..] {
                a = a.and(mk_guard(x));
            }
            Rc::new(a)
        }
        G::Any(l) => {
            let mut a = guard::Any(mk_guard(&l[0]));
            for x in &l[1..] {
                a = a.or(mk_guard(x));
            }
            Rc::new(a)
        }
        G::Not(g) => Rc::new(guard::Not(mk_guard(g))),
    }
}

enum Svc {
    R(Resource),
    S(Scope),
}
impl HttpServiceFactory for Svc {
    fn register(self, config: &mut AppService) {
        match self {
            Svc::R(r) => r.register(config),
            Svc::S(s) => s.register(config),
        }
    }
}

fn mk_node(n: &Node) -> Svc {
    match n {
        Node::R { pats, g, routes, dflt, data } => {
            let mut r = match pats {
                Pats::S(p) => web::resource(pattern_text(p)),
                Pats::L(l) => web::resource(l.iter().map(pattern_text).collect::<Vec<String>>()),
            };
            for x in g {
                r = r.guard(mk_guard(x));
            }
            for (gs, id) in routes {
                let id = *id;
                let mut rt = web::route();
                for x in gs {
                    rt = rt.guard(mk_guard(x));
                }
                r = r.route(rt.to(move |req: HttpRequest| report(req, 'r', id)));
            }
            if let Some(d) = dflt {
                let d = *d;
                r = r.default_service(web::to(move |req: HttpRequest| report(req, 'd', d)));
            }
            if let Some(data) = data {
                for (k, v) in data {
                    r = match k {
                        0 => r.app_data(K0(*v)),
                        1 => r.app_data(K1(*v)),
                        _ => r.app_data(K2(*v)),
                    };
                }
            }
            Svc::R(r)
        }
        Node::S { prefix, g, kids, dflt, data, plan } => {
            let mut s = web::scope(&pattern_text(prefix));
            for x in g {
                s = s.guard(mk_guard(x));
            }
            let canon = canon_plan(kids.len(), dflt, data.as_deref().unwrap_or(&[]));
            for call in plan.as_ref().unwrap_or(&canon) {
                s = match call {
                    Call::S(i) => s.service(mk_node(&kids[*i])),
                    Call::D(d) => {
                        let d = *d;
                        s.default_service(web::to(move |req: HttpRequest| report(req, 'd', d)))
                    }
                    Call::A(k, v) => match k {
                        0 => s.app_data(K0(*v)),
                        1 => s.app_data(K1(*v)),
                        _ => s.app_data(K2(*v)),
                    },
                    Call::C(inner) => s.configure(|cfg| apply_cfg(cfg, inner, kids)),
                };
            }
            Svc::S(s)
        }
    }
}

/// the calls of one `configure` closure, on its `ServiceConfig`
fn apply_cfg(cfg: &mut web::ServiceConfig, calls: &[Call], kids: &[Node]) {
    for call in calls {
        match call {
            Call::S(i) => {
                cfg.service(mk_node(&kids[*i]));
            }
            Call::D(d) => {
                let d = *d;
                cfg.default_service(web::to(move |req: HttpRequest| report(req, 'd', d)));
            }
            Call::A(k, v) => {
                match k {
                    0 => cfg.app_data(K0(*v)),
                    1 => cfg.app_data(K1(*v)),
                    _ => cfg.app_data(K2(*v)),
                };
            }
            Call::C(inner) => {
                cfg.configure(|c| apply_cfg(c, inner, kids));
            }
        }
    }
}

/// one answer of the implementation: status + body text
#[derive(Clone, Debug)]
struct Answer {
    status: u16,
    body: String,
}

fn run_impl(c: &Case) -> Vec<Answer> {
    let c = c.clone();
    vh::exec::run_local(async move {
        let mut app = App::new();
        let canon = canon_plan(c.app.kids.len(), &c.app.dflt, &c.app.data);
        for call in c.app.plan.as_ref().unwrap_or(&canon) {
            app = match call {
                Call::S(i) => app.service(mk_node(&c.app.kids[*i])),
                Call::D(d) => {
                    let d = *d;
                    app.default_service(web::to(move |req: HttpRequest| report(req, 'd', d)))
                }
                Call::A(k, v) => match k {
                    0 => app.app_data(K0(*v)),
                    1 => app.app_data(K1(*v)),
                    _ => app.app_data(K2(*v)),
                },
                Call::C(inner) => app.configure(|cfg| apply_cfg(cfg, inner, &c.app.kids)),
            };
        }
        let srv = test::init_service(app).await;
        let mut out = vec![];
        for r in &c.reqs {
            let mut tr = test::TestRequest::with_uri(&r.path).method(METHODS[r.m as usize].clone());
            if let Some(h) = r.host {
                tr = tr.insert_header(("host", HOSTS[h as usize]));
            }
            for (n, v) in &r.hdrs {
                tr = tr.append_header((HNAMES[*n as usize], HVALS[*v as usize]));
            }
            let resp = test::call_service(&srv, tr.to_request()).await;
            let status = resp.status().as_u16();
            let body = test::read_body(resp).await;
            out.push(Answer { status, body: String::from_utf8_lossy(&body).into_owned() });
        }
        out
    })
}

/// canonical text of one answer (mirrors `run_req` of RunC09.v)
fn answer_text(a: &Answer) -> String {
    match (a.status, a.body.is_empty()) {
        (404, true) => "404;".into(),
        (405, true) => "405;".into(),
        (200, false) => format!("{};", a.body),
        (s, _) => format!("?{}:{};", s, a.body),
    }
}

// ---------------------------------------------------------------------------------- the oracle
#[derive(Clone, Debug, PartialEq)]
enum Hnd {
    Route(u32),
    Default(u32),
    H404,
    H405,
}

fn guard_accepts(g: &G, r: &Rq) -> bool {
    match g {
        G::M(m) => r.m == *m,
        G::H(n, v) => r.hdrs.iter().find(|(n2, _)| n2 == n).map(|(_, v2)| v2 == v).unwrap_or(false),
        G::Host(h) => r.host == Some(*h),
        G::All(l) => l.iter().all(|x| guard_accepts(x, r)),
        G::Any(l) => l.iter().any(|x| guard_accepts(x, r)),
        G::Not(g) => !guard_accepts(g, r),
    }
}
fn all_accept(gs: &[G], r: &Rq) -> bool {
    gs.iter().all(|g| guard_accepts(g, r))
}

/// reference decoder: `%XY` is decoded unless it denotes '%', '/' or '+'; left to right, the
/// decoded byte is never looked at again
fn ref_requote(raw: &str) -> Vec<u8> {
    let b = raw.as_bytes();
    let hv = |c: u8| (c as char).to_digit(16);
    let mut out = vec![];
    let mut i = 0;
    while i < b.len() {
        if b[i] == b'%' && i + 2 < b.len() {
            if let (Some(h), Some(l)) = (hv(b[i + 1]), hv(b[i + 2])) {
                let v = (h * 16 + l) as u8;
                if v != b'%' && v != b'/' && v != b'+' {
                    out.push(v);
                    i += 3;
                    continue;
                }
            }
        }
        out.push(b[i]);
        i += 1;
    }
    out
}

struct Expect {
    hnd: Hnd,
    pairs: Vec<(String, String)>,
    rest: String,
    stack: Vec<Data>,
    /// Some(pattern) when a resource was reached: the concatenated first patterns of the chain
    pattern: Option<String>,
    /// a candidate whose pattern matched was passed over because its guards rejected, and a later
    /// service (not a default) won at that level
    guard_skipped: bool,
    depth: usize,
    /// F26 class of the request: the search falls through to the default inside a scope that has
    /// no default service of its own and whose nearest enclosing default is a scope's, not the app's
    in_f26_class: bool,
    /// sum of the matched lengths along the chain
    consumed: usize,
    notes: Vec<String>,
}

/// match ONE pattern against the not-yet-matched remainder: (matched length, captures)
fn match_one(text: &str, prefix: bool, rest: &str) -> Option<(usize, Vec<(String, String)>)> {
    let rd = if prefix { ResourceDef::prefix(text) } else { ResourceDef::new(text) };
    let mut p = Path::new(rest);
    if rd.capture_match_info(&mut p) {
        let n = rest.len() - p.unprocessed().len();
        Some((n, p.iter().map(|(k, v)| (k.to_string(), v.to_string())).collect()))
    } else {
        None
    }
}

/// [own]: the default of this level was set on this very scope / app; [from_scope]: it was set on
/// some scope (this one or an enclosing one), not on the app
fn walk(kids: &[Node], dflt: Hnd, own: bool, from_scope: bool, r: &Rq, e: &mut Expect, chain_pat: String) {
    let mut skipped_here = false;
    for k in kids {
        let (texts, prefix, gs) = match k {
            Node::R { pats, g, .. } => (pats_texts(pats), false, g),
            Node::S { prefix, g, .. } => (vec![pattern_text(prefix)], true, g),
        };
        // the first member pattern that matches the remainder
        let hit = texts.iter().map(|t| slashed(t)).find_map(|t| match_one(&t, prefix, &e.rest));
        let Some((n, caps)) = hit else { continue };
        if !all_accept(gs, r) {
            skipped_here = true;
            continue;
        }
        // commit
        let new_rest = e.rest[n..].to_string();
        if prefix && !(new_rest.is_empty() || new_rest.starts_with('/')) {
            e.notes.push(format!("prefix match of {:?} ends inside a segment: rest {:?}", texts, new_rest));
        }
        e.pairs.extend(caps);
        e.rest = new_rest;
        e.consumed += n;
        e.depth += 1;
        if skipped_here {
            e.guard_skipped = true;
        }
        let pat = format!("{}{}", chain_pat, slashed(&texts[0]));
        match k {
            Node::R { routes, dflt: rd, data, .. } => {
                if let Some(d) = data {
                    e.stack.push(d.clone());
                }
                e.pattern = Some(pat);
                e.hnd = routes
                    .iter()
                    .find(|(gs, _)| all_accept(gs, r))
                    .map(|(_, id)| Hnd::Route(*id))
                    .unwrap_or(match rd {
                        Some(d) => Hnd::Default(*d),
                        None => Hnd::H405,
                    });
            }
            Node::S { kids, dflt: sd, data, .. } => {
                if let Some(d) = data {
                    e.stack.push(d.clone());
                }
                // nearest enclosing default
                let (d2, own2, from2) = match sd {
                    Some(d) => (Hnd::Default(*d), true, true),
                    None => (dflt.clone(), false, from_scope),
                };
                walk(kids, d2, own2, from2, r, e, pat);
            }
        }
        return;
    }
    e.hnd = dflt;
    e.in_f26_class = !own && from_scope;
}

fn oracle_expect(app: &AppT, r: &Rq) -> Expect {
    let routed = String::from_utf8(ref_requote(&r.path)).unwrap_or_default();
    let mut e = Expect {
        hnd: Hnd::H404,
        pairs: vec![],
        rest: routed,
        stack: vec![app.data.clone()],
        pattern: None,
        guard_skipped: false,
        depth: 0,
        in_f26_class: false,
        consumed: 0,
        notes: vec![],
    };
    let d = match app.dflt {
        Some(d) => Hnd::Default(d),
        None => Hnd::H404,
    };
    walk(&app.kids, d, true, false, r, &mut e, String::new());
    e
}

fn data_lookup(stack: &[Data], k: u8) -> Option<u32> {
    // innermost registration holding the key; inside one container the last insert wins
    for c in stack.iter().rev() {
        if let Some((_, v)) = c.iter().rev().find(|(k2, _)| *k2 == k) {
            return Some(*v);
        }
    }
    None
}

/// judges one answer against the property statement
fn judge(app: &AppT, r: &Rq, a: &Answer) -> (Result<(), String>, Expect) {
    let e = oracle_expect(app, r);
    let res = (|| {
        if let Some(n) = e.notes.first() {
            return Err(n.clone());
        }
        match (&e.hnd, a.status, a.body.is_empty()) {
            (Hnd::H404, 404, true) | (Hnd::H405, 405, true) => return Ok(()),
            (Hnd::H404, _, _) | (Hnd::H405, _, _) => {
                return Err(format!("expected the built-in {:?}, got {} {:?}", e.hnd, a.status, a.body))
            }
            _ => {}
        }
        if a.status != 200 {
            return Err(format!("expected {:?}, got status {} {:?}", e.hnd, a.status, a.body));
        }
        let f: Vec<&str> = a.body.split('|').collect();
        if f.len() != 6 {
            return Err(format!("unparsable report {:?}", a.body));
        }
        let want_id = match &e.hnd {
            Hnd::Route(i) => format!("r{i}"),
            Hnd::Default(i) => format!("d{i}"),
            _ => unreachable!(),
        };
        if f[0] != want_id {
            return Err(format!("handled by {} but the first registered match is {}", f[0], want_id));
        }
        let want_pairs: String = e.pairs.iter().map(|(k, v)| format!("{k}={v},")).collect();
        if f[1] != want_pairs {
            return Err(format!("match_info {:?}, the patterns on the route capture {:?}", f[1], want_pairs));
        }
        if f[2] != e.rest {
            return Err(format!("unprocessed {:?}, expected {:?}", f[2], e.rest));
        }
        // percent-decoding keeps the segment structure
        let routed = f[3];
        if routed.as_bytes() != ref_requote(&r.path).as_slice() {
            return Err(format!("routed path {:?} is not the reference decoding of {:?}", routed, r.path));
        }
        let slashes = |s: &str| s.bytes().filter(|c| *c == b'/').count();
        if slashes(routed) != slashes(&r.path) {
            return Err(format!("decoding changed the number of '/': {:?} -> {:?}", r.path, routed));
        }
        if !routed.ends_with(f[2]) || routed.len() - f[2].len() != e.consumed {
            return Err(format!("skip {} is not the sum of the matched lengths {}", routed.len() - f[2].len(), e.consumed));
        }
        if let Some(p) = &e.pattern {
            if f[4] != p {
                return Err(format!("match_pattern {:?}, the chain's patterns are {:?}", f[4], p));
            }
        }
        let want_data: Vec<String> =
            (0..3).map(|k| data_lookup(&e.stack, k).map(|v| v.to_string()).unwrap_or_else(|| "-".into())).collect();
        if f[5] != want_data.join(",") {
            return Err(format!("app_data {:?}, innermost registrations give {:?}", f[5], want_data.join(",")));
        }
        Ok(())
    })();
    (res, e)
}

/// F26 class of a table: a default-less scope nested (at any depth) in a scope with a custom default
/// (mirrors `bad_in` / `Known` of coq/theories/Router/RouteSpec.v)
fn bad_in(ctx: bool, n: &Node) -> bool {
    match n {
        Node::R { .. } => false,
        Node::S { kids, dflt: None, .. } => ctx || kids.iter().any(|k| bad_in(ctx, k)),
        Node::S { kids, dflt: Some(_), .. } => kids.iter().any(|k| bad_in(true, k)),
    }
}
fn table_in_f26_class(app: &AppT) -> bool {
    app.kids.iter().any(|k| bad_in(false, k))
}

// ---------------------------------------------------------------------------------- generator
const NAMES: &[&str] = &["a", "b", "id", "x"];

fn gen_guard(rng: &mut Rng, depth: u32) -> G {
    match rng.below(if depth == 0 { 9 } else { 6 }) {
        0..=2 => G::M(rng.below(4) as u8),
        3 | 4 => G::H(rng.below(2) as u8, rng.below(3) as u8),
        5 => G::Host(rng.below(2) as u8),
        6 => G::Not(Box::new(gen_guard(rng, depth + 1))),
        7 => G::All((0..rng.range(1, 2)).map(|_| gen_guard(rng, depth + 1)).collect()),
        _ => G::Any((0..rng.range(1, 3)).map(|_| gen_guard(rng, depth + 1)).collect()),
    }
}
fn gen_guards(rng: &mut Rng, p_some: u64) -> Vec<G> {
    if rng.chance(p_some, 100) {
        (0..rng.range(1, 2)).map(|_| gen_guard(rng, 0)).collect()
    } else {
        vec![]
    }
}

fn gen_pattern(rng: &mut Rng, scope: bool) -> Pattern {
    fn c(s: &str) -> Seg {
        Seg::C(s.to_string())
    }
    let nm = |rng: &mut Rng| rng.pick(NAMES).to_string();
    let statics: &[&str] = if scope { &["/a", "/b", "/ab", "/a/b", "/a/", "/", "", "a", "/s"] } else { &["/a", "/b", "/ab", "/a/b", "/a/", "/", "", "c", "/a-b", "/x"] };
    let segs = match rng.below(if scope { 8 } else { 12 }) {
        0..=3 => vec![c(*rng.pick(statics))],
        4 => vec![c("/"), Seg::D(nm(rng))],
        5 => vec![c(*rng.pick(&["/a/", "/u/", "/"])), Seg::D(nm(rng)), c(*rng.pick(&["", "/", "/z"]))],
        6 => vec![c("/"), Seg::X(nm(rng), rng.below(RE_MENU.len() as u64) as u8)],
        7 => {
            if rng.chance(1, 2) {
                vec![c("/"), Seg::D("a".into()), c(*rng.pick(&["/", "-"])), Seg::D("b".into())]
            } else {
                vec![Seg::D(nm(rng))]
            }
        }
        8 => vec![c(*rng.pick(&["/f/", "/", "/a"])), Seg::T("t".into())],
        9 => vec![c("/"), Seg::D(nm(rng)), c("/"), Seg::T("t".into())],
        10 => vec![c(*rng.pick(&["/a/", "/"])), Seg::X("n".into(), rng.below(RE_MENU.len() as u64) as u8), c(*rng.pick(&["", "/e"]))],
        _ => vec![Seg::T("t".into())],
    };
    Pattern(segs.into_iter().filter(|s| *s != Seg::C(String::new())).collect())
}

/// a pattern overlapping [p]: the same, or its last constant replaced by a dynamic segment
fn overlapping(rng: &mut Rng, p: &Pattern) -> Pattern {
    if rng.chance(1, 2) {
        return p.clone();
    }
    let mut q = p.clone();
    if let Some(Seg::C(t)) = q.0.last().cloned() {
        if let Some(i) = t.rfind('/') {
            q.0.pop();
            if i > 0 || !q.0.is_empty() {
                q.0.push(Seg::C(t[..=i].to_string()));
            } else {
                q.0.push(Seg::C("/".into()));
            }
            if !q.0.iter().any(|s| matches!(s, Seg::D(n) if n == "w")) {
                q.0.push(Seg::D("w".into()));
            }
            // merge adjacent constants
            let mut m: Vec<Seg> = vec![];
            for s in q.0 {
                match (m.last_mut(), &s) {
                    (Some(Seg::C(a)), Seg::C(b)) => a.push_str(b),
                    _ => m.push(s),
                }
            }
            return Pattern(m);
        }
    }
    p.clone()
}

struct Ids(u32);
impl Ids {
    fn next(&mut self) -> u32 {
        self.0 += 1;
        self.0
    }
}

/// a random sequence of builder calls denoting (nkids services, dflt, data): the three ordered
/// streams are merged at random (decoy defaults before the real one), then consecutive calls are
/// wrapped at random into `.configure(..)` closures (possibly empty, possibly nested)
fn gen_plan(rng: &mut Rng, ids: &mut Ids, nkids: usize, dflt: &Option<u32>, data: &[(u8, u32)]) -> Vec<Call> {
    let mut svcs: std::collections::VecDeque<Call> = (0..nkids).map(Call::S).collect();
    let mut dats: std::collections::VecDeque<Call> = data.iter().map(|(k, v)| Call::A(*k, *v)).collect();
    let mut dfls: std::collections::VecDeque<Call> = Default::default();
    if let Some(d) = dflt {
        for _ in 0..rng.below(3).saturating_sub(1) {
            dfls.push_back(Call::D(ids.next())); // overwritten later
        }
        dfls.push_back(Call::D(*d));
    }
    let mut flat = vec![];
    while !(svcs.is_empty() && dats.is_empty() && dfls.is_empty()) {
        let q = match rng.below(5) {
            0 | 1 => &mut svcs,
            2 => &mut dats,
            _ => &mut dfls, // defaults tend to come early: more calls follow them
        };
        if let Some(c) = q.pop_front() {
            flat.push(c);
        }
    }
    fn wrap(rng: &mut Rng, flat: Vec<Call>, depth: u32) -> Vec<Call> {
        let mut out = vec![];
        let mut it = flat.into_iter().peekable();
        while it.peek().is_some() {
            if rng.chance(if depth == 0 { 2 } else { 1 }, 5) {
                let n = rng.below(4) as usize; // 0 = a configure closure that registers nothing
                let group: Vec<Call> = (&mut it).take(n).collect();
                let group = if depth < 2 { wrap(rng, group, depth + 1) } else { group };
                out.push(Call::C(group));
            } else {
                out.push(it.next().unwrap());
            }
        }
        if rng.chance(1, 4) {
            out.push(Call::C(vec![]));
        }
        out
    }
    wrap(rng, flat, 0)
}

fn gen_data(rng: &mut Rng, p_some: u64) -> Option<Data> {
    if rng.chance(p_some, 100) {
        Some((0..rng.range(1, 2)).map(|_| (rng.below(3) as u8, rng.range(1, 99) as u32)).collect())
    } else {
        None
    }
}

fn gen_resource(rng: &mut Rng, ids: &mut Ids, pats: Pats, force_guard: bool) -> Node {
    let g = if force_guard { vec![gen_guard(rng, 0)] } else { gen_guards(rng, 25) };
    let nroutes = match rng.below(10) {
        0 => 0,
        1..=5 => 1,
        6..=8 => 2,
        _ => 3,
    };
    let routes = (0..nroutes)
        .map(|i| {
            // the last route is often unguarded (`.to(handler)`)
            let gs = if i + 1 == nroutes && rng.chance(1, 2) { vec![] } else { gen_guards(rng, 55) };
            (gs, ids.next())
        })
        .collect();
    Node::R { pats, g, routes, dflt: if rng.chance(1, 5) { Some(ids.next()) } else { None }, data: gen_data(rng, 25) }
}

fn gen_kids(rng: &mut Rng, ids: &mut Ids, level: u32, max_kids: u64) -> Vec<Node> {
    let n = rng.range(if level == 0 { 1 } else { 0 }, max_kids);
    let mut kids: Vec<Node> = vec![];
    let mut last_pat: Option<Pattern> = None;
    for _ in 0..n {
        let overlap = last_pat.is_some() && rng.chance(1, 3);
        let scope = level < 2 && rng.chance(if level == 0 { 45 } else { 35 }, 100);
        if scope {
            let mut prefix = if overlap { last_pat.clone().unwrap() } else { gen_pattern(rng, true) };
            if matches!(prefix.0.last(), Some(Seg::T(_))) {
                prefix = gen_pattern(rng, true);
            }
            last_pat = Some(prefix.clone());
            let sub = gen_kids(rng, ids, level + 1, max_kids);
            let dflt = if rng.chance(3, 10) { Some(ids.next()) } else { None };
            let data = gen_data(rng, 40);
            let plan = if rng.chance(1, 2) {
                Some(gen_plan(rng, ids, sub.len(), &dflt, data.as_deref().unwrap_or(&[])))
            } else {
                None
            };
            kids.push(Node::S { prefix, g: gen_guards(rng, if overlap { 20 } else { 25 }), kids: sub, dflt, data, plan });
        } else {
            let pats = if overlap {
                Pats::S(overlapping(rng, last_pat.as_ref().unwrap()))
            } else if rng.chance(1, 6) {
                Pats::L((0..rng.below(4)).map(|_| gen_pattern(rng, false)).collect())
            } else {
                Pats::S(gen_pattern(rng, false))
            };
            last_pat = Some(match &pats {
                Pats::S(p) => p.clone(),
                Pats::L(l) => l.first().cloned().unwrap_or(Pattern(vec![])),
            });
            // an overlapping successor makes sense when the predecessor can reject: give the
            // predecessor a guard
            if overlap {
                if let Some(prev) = kids.last_mut() {
                    let add = gen_guard(rng, 0);
                    match prev {
                        Node::R { g, .. } | Node::S { g, .. } => {
                            if g.is_empty() {
                                g.push(add)
                            }
                        }
                    }
                }
            }
            kids.push(gen_resource(rng, ids, pats, false));
        }
    }
    kids
}

fn gen_app(rng: &mut Rng, max_kids: u64) -> AppT {
    let mut ids = Ids(0);
    let kids = gen_kids(rng, &mut ids, 0, max_kids);
    let dflt = if rng.chance(2, 5) { Some(ids.next()) } else { None };
    let data: Data = if rng.chance(1, 2) { (0..rng.range(1, 2)).map(|_| (rng.below(3) as u8, rng.range(1, 99) as u32)).collect() } else { vec![] };
    let plan = if rng.chance(1, 2) { Some(gen_plan(rng, &mut ids, kids.len(), &dflt, &data)) } else { None };
    AppT { kids, dflt, data, plan }
}

const DVALS: &[&str] = &["x", "ab", "1", "a%2Fb", "%41", "a+b", "a%2Bb", "a.b", "12", "a%25", "%61b", "Q"];
fn inst_re(rng: &mut Rng, k: u8) -> &'static str {
    let m: &[&[&str]] = &[&["7", "42"], &["ab", "q"], &["a_1", "Z9"], &["ab12", "c"], &["", "q", "a-b"], &["a0", "ff"], &["z/y", "k"], &["1-2", "10-20"], &["a1", "z9"]];
    *rng.pick(m[k as usize])
}
fn instantiate(rng: &mut Rng, p: &Pattern) -> String {
    let mut s = String::new();
    for sg in &p.0 {
        match sg {
            Seg::C(c) => s.push_str(c),
            Seg::D(_) => s.push_str(*rng.pick(DVALS)),
            Seg::X(_, k) => s.push_str(inst_re(rng, *k)),
            Seg::T(_) => s.push_str(*rng.pick(&["", "x", "x/y", "x//y/", "a%2Fb/c"])),
        }
    }
    slashed(&s)
}
/// a path that walks down the table
fn gen_hit(rng: &mut Rng, kids: &[Node]) -> String {
    if kids.is_empty() {
        return String::new();
    }
    match rng.pick(kids) {
        Node::R { pats, .. } => match pats {
            Pats::S(p) => instantiate(rng, p),
            Pats::L(l) if !l.is_empty() => {
                let p = rng.pick(l);
                instantiate(rng, p)
            }
            _ => "/".into(),
        },
        Node::S { prefix, kids, .. } => {
            let mut s = instantiate(rng, prefix);
            if rng.chance(9, 10) {
                s.push_str(&gen_hit(rng, kids));
            }
            s
        }
    }
}
fn mutate(rng: &mut Rng, p: &str) -> String {
    let mut b: Vec<u8> = p.bytes().collect();
    match rng.below(9) {
        0 => b.push(b'/'),
        1 => {
            b.pop();
        }
        2 if !b.is_empty() => {
            let i = rng.below(b.len() as u64) as usize;
            b.insert(i, b'/');
        }
        3 if !b.is_empty() => {
            let i = rng.below(b.len() as u64) as usize;
            b[i] = *rng.pick(b"ab/-1");
        }
        4 => b.extend_from_slice((*rng.pick(&["/zz", "/a", "x", "//", "/%2F"])).as_bytes()),
        5 if !b.is_empty() => {
            // percent-encode one byte (letters decode back; '/', '%', '+' stay encoded)
            let i = rng.below(b.len() as u64) as usize;
            if b[i] != b'%' && !(i >= 1 && b[i - 1] == b'%') && !(i >= 2 && b[i - 2] == b'%') {
                let e = format!("%{:02X}", b[i]);
                b.splice(i..=i, e.bytes());
            }
        }
        6 => {
            let s = String::from_utf8_lossy(&b).replace("//", "/");
            b = s.into_bytes();
        }
        7 if b.len() > 1 => {
            let i = rng.range(1, b.len() as u64 - 1) as usize;
            b.remove(i);
        }
        _ => {
            let i = rng.below(b.len() as u64 + 1) as usize;
            let ins: &str = *rng.pick(&["%2f", "%2B", "%25", "%4", "%zz", "+", "%41"]);
            b.splice(i..i, ins.bytes());
        }
    }
    let mut s = String::from_utf8_lossy(&b).into_owned();
    if !s.starts_with('/') {
        s.insert(0, '/');
    }
    s
}
fn guard_atoms(g: &G, out: &mut Vec<G>) {
    match g {
        G::All(l) | G::Any(l) => l.iter().for_each(|x| guard_atoms(x, out)),
        G::Not(g) => guard_atoms(g, out),
        a => out.push(a.clone()),
    }
}
fn table_atoms(kids: &[Node], out: &mut Vec<G>) {
    for k in kids {
        match k {
            Node::R { g, routes, .. } => {
                g.iter().for_each(|x| guard_atoms(x, out));
                routes.iter().for_each(|(gs, _)| gs.iter().for_each(|x| guard_atoms(x, out)));
            }
            Node::S { g, kids, .. } => {
                g.iter().for_each(|x| guard_atoms(x, out));
                table_atoms(kids, out);
            }
        }
    }
}
fn gen_req(rng: &mut Rng, app: &AppT) -> Rq {
    let mut atoms = vec![];
    table_atoms(&app.kids, &mut atoms);
    let base = gen_hit(rng, &app.kids);
    let base = if base.starts_with('/') { base } else { format!("/{base}") };
    let path = match rng.below(10) {
        0..=4 => base,
        5..=8 => mutate(rng, &base),
        _ => {
            let n = rng.range(1, 8);
            let mut s = String::from("/");
            for _ in 0..n {
                s.push(*rng.pick(b"ab/-1%2F+x.") as char);
            }
            s
        }
    };
    // ASCII only: no escape may decode to a byte >= 0x80
    let path = if ref_requote(&path).iter().all(|b| *b < 128) { path } else { path.replace('%', "%25") };
    let mut rq = Rq {
        m: if rng.chance(1, 2) { 0 } else { rng.below(4) as u8 },
        host: match rng.below(4) {
            0 | 1 => None,
            x => Some((x - 2) as u8),
        },
        hdrs: (0..rng.below(3)).map(|_| (rng.below(2) as u8, rng.below(3) as u8)).collect(),
        path,
    };
    // two times out of three, take method / host / headers from the guards of the table
    if !atoms.is_empty() && rng.chance(2, 3) {
        rq.hdrs.clear();
        for _ in 0..rng.range(1, 4) {
            match rng.pick(&atoms) {
                G::M(m) => rq.m = *m,
                G::Host(h) => rq.host = Some(*h),
                G::H(n, v) => rq.hdrs.push((*n, *v)),
                _ => {}
            }
        }
    }
    rq
}

// -------------------------------------------------------------------------------------- driver
fn count_nodes(kids: &[Node], depth: usize, maxd: &mut usize, tags: &mut Vec<String>) {
    for k in kids {
        *maxd = (*maxd).max(depth);
        match k {
            Node::R { pats, g, routes, dflt, data } => {
                tags.push(match pats {
                    Pats::S(p) if p.0.iter().all(|s| matches!(s, Seg::C(_))) => "res:static".into(),
                    Pats::S(p) if matches!(p.0.last(), Some(Seg::T(_))) => "res:tail".into(),
                    Pats::S(p) if p.0.iter().any(|s| matches!(s, Seg::X(..))) => "res:regex".into(),
                    Pats::S(_) => "res:dynamic".into(),
                    Pats::L(l) => format!("res:multi{}", l.len()),
                });
                if !g.is_empty() {
                    tags.push("res:guarded".into());
                }
                if routes.is_empty() {
                    tags.push("res:no-routes".into());
                }
                if dflt.is_some() {
                    tags.push("res:custom-default".into());
                }
                if data.is_some() {
                    tags.push("res:data".into());
                }
            }
            Node::S { prefix, g, kids, dflt, data, plan } => {
                if let Some(p) = plan {
                    let mut flat = vec![];
                    flatten(p, &mut flat);
                    if p.iter().any(|c| matches!(c, Call::C(_))) {
                        tags.push("scope:built-with-configure".into());
                        let first_d = flat.iter().position(|c| matches!(c, Call::D(_)));
                        let _ = first_d;
                    }
                    if default_before_configure(p) {
                        tags.push("scope:default-then-configure".into());
                    }
                }
                let t = pattern_text(prefix);
                tags.push(
                    if t.is_empty() {
                        "scope:empty"
                    } else if t.contains('{') {
                        "scope:dynamic"
                    } else if t.ends_with('/') {
                        "scope:trailing-slash"
                    } else {
                        "scope:static"
                    }
                    .into(),
                );
                if !g.is_empty() {
                    tags.push("scope:guarded".into());
                }
                if dflt.is_some() {
                    tags.push("scope:custom-default".into());
                }
                if data.is_some() {
                    tags.push("scope:data".into());
                }
                if kids.is_empty() {
                    tags.push("scope:no-children".into());
                }
                count_nodes(kids, depth + 1, maxd, tags);
            }
        }
    }
}

/// `impl IntoPatterns for Vec<T>` turns a one-element vector into `Patterns::Single`
fn norm(kids: &mut [Node]) {
    for k in kids {
        match k {
            Node::R { pats, .. } => {
                if let Pats::L(l) = pats {
                    if l.len() == 1 {
                        *pats = Pats::S(l[0].clone());
                    }
                }
            }
            Node::S { kids, .. } => norm(kids),
        }
    }
}

fn emit_case(em: &mut Emitter, id: String, mut c: Case) {
    norm(&mut c.app.kids);
    check_plans(&c.app.kids);
    if let Some(p) = &c.app.plan {
        assert!(plan_denotes(p, c.app.kids.len(), &c.app.dflt, &c.app.data), "app plan does not denote the table");
    }
    let r = catch(|| run_impl(&c));
    let mut tags = vec![];
    let mut maxd = 0;
    count_nodes(&c.app.kids, 1, &mut maxd, &mut tags);
    tags.push(format!("levels:{maxd}"));
    if c.app.dflt.is_some() {
        tags.push("app:custom-default".into());
    }
    if let Some(p) = &c.app.plan {
        if p.iter().any(|c| matches!(c, Call::C(_))) {
            tags.push("app:built-with-configure".into());
        }
        if default_before_configure(p) {
            tags.push("app:default-then-configure".into());
        }
    }
    let mut text = String::new();
    for k in &c.app.kids {
        node_texts(k, &mut text);
    }
    text.push('#');
    text.push(if table_in_f26_class(&c.app) { 'K' } else { 'k' });
    let (expect, show, ok, why, nontrivial, known_class) = match &r {
        Ok(answers) => {
            let mut verdict: Result<(), String> = Ok(());
            let mut known_only = true;
            let mut handlers = std::collections::BTreeSet::new();
            let mut deep_route = false;
            for (i, (rq, a)) in c.reqs.iter().zip(answers).enumerate() {
                text.push_str(&answer_text(a));
                let (res, e) = judge(&c.app, rq, a);
                if let Err(m) = &res {
                    let known = e.in_f26_class && table_in_f26_class(&c.app);
                    if known {
                        tags.push("F26-request".into());
                    }
                    // a failure outside the class takes precedence in the report
                    if verdict.is_ok() || (known_only && !known) {
                        verdict = Err(format!("request {i} {:?}: {m}", rq.path));
                    }
                    known_only = known_only && known;
                }
                tags.push(
                    match e.hnd {
                        Hnd::Route(_) => "answer:route",
                        Hnd::Default(_) => "answer:custom-default",
                        Hnd::H404 => "answer:404",
                        Hnd::H405 => "answer:405",
                    }
                    .into(),
                );
                tags.push(format!("answer-depth:{}", e.depth));
                if e.guard_skipped {
                    tags.push("guard-rejected-first-then-later-match".into());
                }
                if !e.pairs.is_empty() {
                    tags.push("answer:with-params".into());
                }
                if rq.path.contains('%') {
                    tags.push("path:percent".into());
                }
                if rq.path.contains("//") {
                    tags.push("path:empty-segment".into());
                }
                if rq.path.len() > 1 && rq.path.ends_with('/') {
                    tags.push("path:trailing-slash".into());
                }
                if matches!(e.hnd, Hnd::Route(_)) && e.depth >= 2 {
                    deep_route = true;
                }
                handlers.insert(format!("{:?}", e.hnd));
            }
            let nt = handlers.len() >= 2 && deep_route;
            let kc = if verdict.is_err() && known_only { "F26-nested-scope-default" } else { "" };
            (Some(format!("(VH {})", q(&text))), text.clone(), verdict.is_ok(), verdict.err().unwrap_or_default(), nt, kc)
        }
        Err(p) => {
            em.panics += 1;
            (None, format!("PANIC {p}"), false, format!("implementation panicked: {p}"), false, "")
        }
    };
    if table_in_f26_class(&c.app) {
        tags.push("table:F26-class".into());
    }
    // per-request tags are counted once per request; table tags once per case
    em.emit(CaseOut {
        id,
        input: serde_json::to_value(&c).unwrap(),
        coq_case: Some(coq_case(&c)),
        expect,
        sig: show.clone(),
        impl_show: show,
        oracle_ok: ok,
        oracle_why: why,
        known_class: known_class.to_string(),
        nontrivial,
        tags,
    });
}

fn main() {
    let args = parse_args();
    let mut em = Emitter::default();
    for (id, j) in args.fixed_inputs() {
        let c: Case = serde_json::from_value(j).expect("case");
        emit_case(&mut em, id, c);
    }
    if args.case.is_none() {
        let mut rng = Rng::new(args.seed);
        let n = args.n.unwrap_or(if args.thorough() { 3000 } else { 400 });
        let per = if args.thorough() { 24 } else { 12 };
        for i in 0..n {
            let mut r = rng.fork();
            let app = gen_app(&mut r, if i % 7 == 0 { 4 } else { 3 });
            let reqs = (0..per).map(|_| gen_req(&mut r, &app)).collect();
            emit_case(&mut em, format!("gen-{i}"), Case { app, reqs });
        }
    }
    em.finish();
}
