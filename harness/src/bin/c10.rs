//! C10 — path patterns match exactly their language, captures are exact, requote is exact.
//! Generator + implementation runner (`actix_router::{ResourceDef, Path, Quoter}`) + property
//! oracle (judged on the implementation's behaviour alone) + printer of the case as a Gallina term
//! of `AV.Run.RunC10.case`.
//!
//! Paths are ASCII (see coq/theories/Router/Pattern.v); quoter inputs are arbitrary bytes.

use std::collections::HashMap;

use actix_router::{Path, Patterns, Quoter, ResourceDef};
use serde::{Deserialize, Serialize};
use vh::*;

// ------------------------------------------------------------------------------------ pattern AST
#[derive(Serialize, Deserialize, Clone, Copy, Debug, PartialEq)]
enum Cls {
    Any,
    NotSlash,
    Digit,
    Lower,
    HexLower,
    Word,
}
#[derive(Serialize, Deserialize, Clone, Copy, Debug, PartialEq)]
enum Quant {
    One,
    Plus,
    Star,
    Opt,
    Rep(u8),
}
#[derive(Serialize, Deserialize, Clone, Debug, PartialEq)]
enum Atom {
    Lit(char),
    Cls(Cls, Quant),
}
#[derive(Serialize, Deserialize, Clone, Debug, PartialEq)]
enum Seg {
    Const(String),
    Var(String, Vec<Atom>),
}
#[derive(Serialize, Deserialize, Clone, Debug)]
struct Pattern {
    segs: Vec<Seg>,
    tail: bool,
}
#[derive(Serialize, Deserialize, Clone, Debug)]
enum Pats {
    Single(Pattern),
    List(Vec<Pattern>),
}
#[derive(Serialize, Deserialize, Clone, Debug)]
struct Def {
    prefix: bool,
    pats: Pats,
}
#[derive(Serialize, Deserialize, Clone, Debug)]
#[serde(untagged)]
enum PathSpec {
    /// `hit` = built by instantiating the (single) pattern of the first definition
    Plain { p: String, #[serde(default)] hit: bool },
    Rep { pre: String, n: usize, unit: String, post: String },
}
#[derive(Serialize, Deserialize, Clone, Debug)]
#[serde(tag = "k")]
enum Case {
    #[serde(rename = "match")]
    Match { defs: Vec<Def>, paths: Vec<PathSpec> },
    #[serde(rename = "build")]
    Build { prefix: bool, pats: Pats, vals: Vec<String> },
    #[serde(rename = "quote")]
    Quote { prot: String, s: String }, // hex
    #[serde(rename = "quotes")]
    QuoteS { prot: String, ss: Vec<String> }, // hex; many inputs for one protected set
}

fn default_re() -> Vec<Atom> {
    vec![Atom::Cls(Cls::NotSlash, Quant::Plus)]
}
fn tail_re() -> Vec<Atom> {
    vec![Atom::Cls(Cls::Any, Quant::Star)]
}

fn cls_text(c: Cls) -> &'static str {
    match c {
        Cls::Any => ".",
        Cls::NotSlash => "[^/]",
        Cls::Digit => r"\d",
        Cls::Lower => "[a-z]",
        Cls::HexLower => "[a-f0-9]",
        Cls::Word => r"\w",
    }
}
fn re_text(r: &[Atom]) -> String {
    let mut s = String::new();
    for a in r {
        match a {
            Atom::Lit(c) => s.push(*c),
            Atom::Cls(c, q) => {
                s.push_str(cls_text(*c));
                match q {
                    Quant::One => {}
                    Quant::Plus => s.push('+'),
                    Quant::Star => s.push('*'),
                    Quant::Opt => s.push('?'),
                    Quant::Rep(n) => s.push_str(&format!("{{{}}}", n)),
                }
            }
        }
    }
    s
}
/// the pattern string handed to `ResourceDef`
fn pattern_text(p: &Pattern) -> String {
    let mut s = String::new();
    let n = p.segs.len();
    for (i, sg) in p.segs.iter().enumerate() {
        match sg {
            Seg::Const(c) => s.push_str(c),
            Seg::Var(name, re) => {
                if p.tail && i + 1 == n {
                    s.push_str(&format!("{{{}}}*", name));
                } else if *re == default_re() {
                    s.push_str(&format!("{{{}}}", name));
                } else {
                    s.push_str(&format!("{{{}:{}}}", name, re_text(re)));
                }
            }
        }
    }
    s
}

// ------------------------------------------------------------------------------- Gallina printer
fn coq_cls(c: Cls) -> &'static str {
    match c {
        Cls::Any => "CAny",
        Cls::NotSlash => "CNotSlash",
        Cls::Digit => "CDigit",
        Cls::Lower => "CLower",
        Cls::HexLower => "CHexLower",
        Cls::Word => "CWord",
    }
}
fn coq_atom(a: &Atom) -> String {
    match a {
        Atom::Lit(c) => format!("ALit {}", *c as u32),
        Atom::Cls(c, q) => format!(
            "ACls {} {}",
            coq_cls(*c),
            match q {
                Quant::One => "QOne".to_string(),
                Quant::Plus => "QPlus".to_string(),
                Quant::Star => "QStar".to_string(),
                Quant::Opt => "QOpt".to_string(),
                Quant::Rep(n) => format!("(QRep {}%nat)", n),
            }
        ),
    }
}
/// a string as the list of its Unicode scalar values (for ASCII: the same as its bytes)
fn coq_scalars(s: &str) -> String {
    if s.is_ascii() {
        coq_bytes(s.as_bytes())
    } else {
        format!("[{}]", s.chars().map(|c| (c as u32).to_string()).collect::<Vec<_>>().join("; "))
    }
}
fn coq_seg(s: &Seg) -> String {
    match s {
        Seg::Const(c) => format!("SConst {}", coq_scalars(c)),
        Seg::Var(n, re) => format!("SVar {} {}", coq_bytes(n.as_bytes()), coq_list(re, coq_atom)),
    }
}
fn coq_pattern(p: &Pattern) -> String {
    format!("mkPattern {} {}", coq_list(&p.segs, coq_seg), coq_bool(p.tail))
}
fn coq_pats(p: &Pats) -> String {
    match p {
        Pats::Single(p) => format!("(Single ({}))", coq_pattern(p)),
        Pats::List(l) => format!("(PList {})", coq_list(l, coq_pattern)),
    }
}
fn coq_pathspec(p: &PathSpec) -> String {
    match p {
        PathSpec::Plain { p, .. } => format!("PBytes {}", coq_bytes(p.as_bytes())),
        PathSpec::Rep { pre, n, unit, post } => format!(
            "PRep {} {} {} {}",
            coq_bytes(pre.as_bytes()),
            n,
            coq_bytes(unit.as_bytes()),
            coq_bytes(post.as_bytes())
        ),
    }
}
fn coq_case(c: &Case) -> String {
    match c {
        Case::Match { defs, paths } => {
            let ds = coq_list(defs, |d| format!("({}, {})", coq_bool(d.prefix), coq_pats(&d.pats)));
            if paths.iter().all(|p| matches!(p, PathSpec::Plain { .. })) {
                let mut s = String::new();
                for p in paths {
                    s.push_str(&hex(path_string(p).as_bytes()));
                    s.push(',');
                }
                format!("KMatchS {} \"{}\"", ds, s)
            } else {
                format!("KMatch {} {}", ds, coq_list(paths, coq_pathspec))
            }
        }
        Case::Build { prefix, pats, vals } => {
            format!("KBuild {} {} {}", coq_bool(*prefix), coq_pats(pats), coq_list(vals, |v| coq_bytes(v.as_bytes())))
        }
        Case::Quote { prot, s } => format!("KQuote {} {}", coq_bytes(&unhex(prot)), coq_bytes(&unhex(s))),
        Case::QuoteS { prot, ss } => {
            let mut s = String::new();
            for x in ss {
                s.push_str(x);
                s.push(',');
            }
            format!("KQuoteS {} \"{}\"", coq_bytes(&unhex(prot)), s)
        }
    }
}

// ---------------------------------------------------------------------------- canonical rendering
/// compact canonical text of a `V` (mirrors `ser` in coq/theories/Run/RunC10.v)
fn ser(v: &V, out: &mut String) {
    match v {
        V::N(n) => {
            out.push('#');
            out.push_str(&format!("{:x}", n));
            out.push(';');
        }
        V::H(b) => {
            out.push('x');
            out.push_str(&hex(b));
            out.push(';');
        }
        V::T(tag, args) => {
            out.push('(');
            out.push_str(tag);
            out.push(':');
            for a in args {
                ser(a, out);
            }
            out.push_str(");");
        }
        V::L(items) => {
            out.push('[');
            for a in items {
                ser(a, out);
            }
            out.push_str("];");
        }
    }
}

fn v_bytes_s(b: &[u8]) -> V {
    if b.len() <= 64 {
        V::h(b)
    } else {
        V::T(
            "long",
            vec![V::us(b.len()), V::h(&b[..16]), V::h(&b[b.len() - 16..]), V::N(b.iter().map(|x| *x as u128).sum())],
        )
    }
}
fn v_pairs(l: &[(String, String)]) -> V {
    V::L(l.iter().map(|(k, v)| V::T("kv", vec![V::h(k), v_bytes_s(v.as_bytes())])).collect())
}
fn v_patterns(d_prefix: bool, p: &Pats) -> V {
    match p {
        Pats::Single(p) => V::T("single", vec![V::b(d_prefix), V::h(pattern_text(p))]),
        Pats::List(l) => {
            let mut v = vec![V::b(d_prefix)];
            v.extend(l.iter().map(|p| V::h(pattern_text(p))));
            V::T("list", v)
        }
    }
}

// ------------------------------------------------------------------------------ implementation
fn to_patterns(p: &Pats) -> Patterns {
    match p {
        Pats::Single(p) => Patterns::Single(pattern_text(p)),
        Pats::List(l) => Patterns::List(l.iter().map(pattern_text).collect()),
    }
}
fn make_def(prefix: bool, p: &Pats) -> Result<ResourceDef, String> {
    let pats = to_patterns(p);
    catch(|| if prefix { ResourceDef::prefix(pats) } else { ResourceDef::new(pats) })
}
fn path_string(p: &PathSpec) -> String {
    match p {
        PathSpec::Plain { p, .. } => p.clone(),
        PathSpec::Rep { pre, n, unit, post } => format!("{}{}{}", pre, unit.repeat(*n), post),
    }
}

/// language membership of one captured value, judged by the `regex` crate itself
fn in_language(re: &[Atom], v: &str) -> bool {
    thread_local! {
        static CACHE: std::cell::RefCell<HashMap<String, regex::Regex>> = std::cell::RefCell::new(HashMap::new());
    }
    let text = re_text(re);
    CACHE.with(|c| {
        let mut c = c.borrow_mut();
        let r = c.entry(text.clone()).or_insert_with(|| regex::Regex::new(&format!("(?s-m)^(?:{})$", text)).unwrap());
        r.is_match(v)
    })
}

struct Verdict(Result<(), String>);
impl Verdict {
    fn fail(&mut self, msg: String) {
        if self.0.is_ok() {
            self.0 = Err(msg);
        }
    }
}

fn single_of(p: &Pats) -> Option<&Pattern> {
    match p {
        Pats::Single(p) => Some(p),
        Pats::List(l) if l.len() == 1 => Some(&l[0]),
        _ => None,
    }
}
fn pats_list(p: &Pats) -> Vec<&Pattern> {
    match p {
        Pats::Single(p) => vec![p],
        Pats::List(l) => l.iter().collect(),
    }
}
fn var_list(p: &Pattern) -> Vec<(&String, &Vec<Atom>)> {
    p.segs.iter().filter_map(|s| if let Seg::Var(n, r) = s { Some((n, r)) } else { None }).collect()
}
fn is_static(p: &Pattern) -> bool {
    !p.tail && p.segs.iter().all(|s| matches!(s, Seg::Const(_)))
}
fn const_text(p: &Pattern) -> String {
    p.segs.iter().map(|s| if let Seg::Const(c) = s { c.as_str() } else { "" }).collect()
}

/// Runs every definition in sequence on one `Path`; returns the rendered observations and judges
/// the property on them.
fn run_path(defs: &[Def], rds: &[Result<ResourceDef, String>], spec: &PathSpec, verdict: &mut Verdict, stats: &mut Stats) -> V {
    let full = path_string(spec);
    let within_limit = full.len() < 65536;
    let mut path = Path::new(full.as_str());
    let mut out = vec![];
    for (di, (d, rd)) in defs.iter().zip(rds.iter()).enumerate() {
        let rd = match rd {
            Ok(rd) => rd,
            Err(_) => {
                out.push(V::T("def", vec![V::t0("panic")]));
                continue;
            }
        };
        let u: String = path.unprocessed().to_string();
        let skip_before = full.len() - u.len();
        let nseg_before = path.segment_count();
        let im = rd.is_match(&u);
        let fm = rd.find_match(&u);
        let cm = catch(|| rd.capture_match_info(&mut path));
        let cm = match cm {
            Ok(b) => b,
            Err(e) => {
                out.push(V::T("def", vec![V::b(im), V::opt(fm, V::us), V::t0("panic")]));
                if within_limit {
                    verdict.fail(format!("def {di}: capture_match_info panicked on a path of {} bytes: {e}", full.len()));
                }
                break;
            }
        };
        // observe captured pairs (+ true offsets through pointer arithmetic)
        let pairs = catch(|| {
            path.iter()
                .map(|(k, v)| (k.to_string(), v.to_string(), (v.as_ptr() as usize).wrapping_sub(full.as_ptr() as usize)))
                .collect::<Vec<_>>()
        });
        let after = path.unprocessed().to_string();
        out.push(V::T(
            "def",
            vec![
                V::b(im),
                V::opt(fm, V::us),
                V::b(cm),
                match &pairs {
                    Ok(l) => v_pairs(&l.iter().map(|x| (x.0.clone(), x.1.clone())).collect::<Vec<_>>()),
                    Err(_) => V::t0("panic"),
                },
                v_bytes_s(after.as_bytes()),
                V::us(path.segment_count()),
            ],
        ));
        stats.pairs += 1;
        if cm {
            stats.matched += 1;
        }

        // ------------------------------------------------------------------ property oracle
        // (1) the three ways of asking agree
        if im != fm.is_some() || im != cm {
            verdict.fail(format!("def {di} on {:?}: is_match={im} find_match={fm:?} capture={cm}", u));
        }
        if !within_limit {
            continue; // outside the property's quantifier (URL limit); correspondence only
        }
        let pairs = match pairs {
            Ok(l) => l,
            Err(e) => {
                verdict.fail(format!("def {di} on {:?}: reading captured values panicked: {e}", u));
                continue;
            }
        };
        let pl = pats_list(&d.pats);
        if let (true, Some(n)) = (cm, fm) {
            // (2) the matched length is what is consumed
            if n > u.len() || after != u[n..] {
                verdict.fail(format!("def {di} on {:?}: find_match={n} but unprocessed() went to {:?}", u, after));
                continue;
            }
            // (3) boundary rule
            let any_tail = pl.iter().any(|p| p.tail);
            if !any_tail {
                let at_boundary = n == u.len() || (d.prefix && u.as_bytes()[n] == b'/');
                if !at_boundary {
                    verdict.fail(format!("def {di} on {:?}: match of length {n} does not end at a segment boundary", u));
                }
            } else if pl.iter().all(|p| p.tail) && !d.prefix && n != u.len() {
                verdict.fail(format!("def {di} on {:?}: tail pattern matched only {n} bytes", u));
            }
            // (4) new captured values are substrings of the matched prefix, in order, non-overlapping
            let new = &pairs[nseg_before.min(pairs.len())..];
            let mut last_end = skip_before;
            for (k, v, off) in new {
                if *off < last_end || off + v.len() > skip_before + n || &full[*off..off + v.len()] != v.as_str() {
                    verdict.fail(format!("def {di} on {:?}: value {k}={v:?} at offset {off} is not inside the matched prefix [{skip_before},{})", u, skip_before + n));
                }
                last_end = off + v.len();
            }
            // earlier captures are untouched
            if pairs.len() < nseg_before {
                verdict.fail(format!("def {di}: earlier captures lost"));
            }
            // (5) single pattern: names, languages, rebuild = matched prefix
            if let Some(p) = single_of(&d.pats) {
                let vars = var_list(p);
                if new.len() != vars.len() || new.iter().zip(vars.iter()).any(|(a, b)| &a.0 != b.0) {
                    verdict.fail(format!("def {di} on {:?}: captured names {:?} differ from the pattern's", u, new.iter().map(|x| &x.0).collect::<Vec<_>>()));
                } else {
                    for ((k, v, _), (_, re)) in new.iter().zip(vars.iter()) {
                        if !in_language(re, v) {
                            verdict.fail(format!("def {di} on {:?}: value {k}={v:?} is not in the language of its segment", u));
                        }
                        if **re == default_re() && (v.is_empty() || v.contains('/')) {
                            verdict.fail(format!("def {di} on {:?}: default segment captured {v:?}", u));
                        }
                    }
                    let mut rebuilt = String::new();
                    let ok = rd.resource_path_from_iter(&mut rebuilt, new.iter().map(|x| x.1.as_str()));
                    if !ok || rebuilt != u[..n] {
                        verdict.fail(format!("def {di} on {:?}: rebuilding from the captured values gives {:?}, matched prefix is {:?}", u, rebuilt, &u[..n]));
                    }
                }
            }
        } else if !cm {
            if after != u || path.segment_count() != nseg_before {
                verdict.fail(format!("def {di} on {:?}: a failed match modified the Path", u));
            }
        }
        // (6) static text matches exactly itself (prefix: itself followed by a boundary)
        if let Some(p) = single_of(&d.pats) {
            if is_static(p) {
                let t = const_text(p);
                let want = if d.prefix {
                    u.starts_with(&t) && (u.len() == t.len() || u.as_bytes()[t.len()] == b'/')
                } else {
                    u == t
                };
                if im != want || (want && fm != Some(t.len())) {
                    verdict.fail(format!("def {di} on {:?}: static pattern {:?} (prefix={}) gave is_match={im} find_match={fm:?}", u, t, d.prefix));
                }
            }
        }
        // (7) a path built as an instance of the pattern must match (completeness)
        if di == 0 {
            if let PathSpec::Plain { hit: true, .. } = spec {
                if !im {
                    verdict.fail(format!("def 0: {:?} is an instance of the pattern but does not match", u));
                }
            }
        }
        // (8) a pattern list behaves as its first matching member
        if let Pats::List(l) = &d.pats {
            let mut want: Option<(Option<usize>, Vec<(String, String)>)> = None;
            for p in l {
                // a member alone, forced through the same (dynamic) route
                let one = catch(|| {
                    let ps = Patterns::List(vec![pattern_text(p)]);
                    if d.prefix { ResourceDef::prefix(ps) } else { ResourceDef::new(ps) }
                });
                if let Ok(one) = one {
                    if one.is_match(&u) {
                        let mut p1 = Path::new(u.as_str());
                        one.capture_match_info(&mut p1);
                        want = Some((one.find_match(&u), p1.iter().map(|(k, v)| (k.to_string(), v.to_string())).collect()));
                        break;
                    }
                }
            }
            let got_new: Vec<(String, String)> = pairs[nseg_before.min(pairs.len())..].iter().map(|x| (x.0.clone(), x.1.clone())).collect();
            match want {
                None => {
                    if im {
                        verdict.fail(format!("def {di} on {:?}: the list matches but no member does", u));
                    }
                }
                Some((wfm, wpairs)) => {
                    if !im || fm != wfm || got_new != wpairs {
                        verdict.fail(format!("def {di} on {:?}: list gave {fm:?} {got_new:?}, its first matching member gives {wfm:?} {wpairs:?}", u));
                    }
                }
            }
        }
    }
    V::L(out)
}

#[derive(Default)]
struct Stats {
    pairs: usize,
    matched: usize,
    quotes: usize,
}

fn run_match(defs: &[Def], paths: &[PathSpec], verdict: &mut Verdict, stats: &mut Stats) -> V {
    let rds: Vec<Result<ResourceDef, String>> = defs.iter().map(|d| make_def(d.prefix, &d.pats)).collect();
    let heads = V::L(defs.iter().map(|d| v_patterns(d.prefix, &d.pats)).collect());
    let per_path = V::L(paths.iter().map(|p| run_path(defs, &rds, p, verdict, stats)).collect());
    V::T("match", vec![heads, per_path])
}

/// "delimited": every dynamic segment is followed by the end of a full (non-prefix) pattern or by
/// constant text whose first byte cannot occur in the segment's language
fn atom_excludes(a: &Atom, c: u8) -> bool {
    match a {
        Atom::Lit(l) => *l as u32 != c as u32,
        Atom::Cls(cl, _) => !cls_mem(*cl, c),
    }
}
fn cls_mem(c: Cls, b: u8) -> bool {
    match c {
        Cls::Any => true,
        Cls::NotSlash => b != b'/',
        Cls::Digit => b.is_ascii_digit(),
        Cls::Lower => b.is_ascii_lowercase(),
        Cls::HexLower => b.is_ascii_digit() || (b'a'..=b'f').contains(&b),
        Cls::Word => b.is_ascii_alphanumeric() || b == b'_',
    }
}
fn delimited(prefix: bool, p: &Pattern) -> bool {
    // join adjacent constants, drop empty ones
    let mut segs: Vec<Seg> = vec![];
    for s in &p.segs {
        match (segs.last_mut(), s) {
            (_, Seg::Const(c)) if c.is_empty() => {}
            (Some(Seg::Const(a)), Seg::Const(c)) => a.push_str(c),
            _ => segs.push(s.clone()),
        }
    }
    for (i, s) in segs.iter().enumerate() {
        if let Seg::Var(_, re) = s {
            match segs.get(i + 1) {
                None => {
                    if prefix && !p.tail && !re.iter().all(|a| atom_excludes(a, b'/')) {
                        return false;
                    }
                }
                Some(Seg::Const(c)) => {
                    if !re.iter().all(|a| atom_excludes(a, c.as_bytes()[0])) {
                        return false;
                    }
                }
                Some(Seg::Var(..)) => return false,
            }
        }
    }
    true
}

fn run_build(prefix: bool, pats: &Pats, vals: &[String], verdict: &mut Verdict) -> V {
    let head = v_patterns(prefix, pats);
    let rd = match make_def(prefix, pats) {
        Ok(rd) => rd,
        Err(_) => return V::T("build", vec![head, V::t0("panic")]),
    };
    let mut built = String::new();
    let ok = rd.resource_path_from_iter(&mut built, vals.iter());
    let first = pats_list(pats).first().cloned().cloned();
    let names: Vec<String> = first.as_ref().map(|p| var_list(p).iter().map(|x| x.0.clone()).collect()).unwrap_or_default();
    let map: HashMap<String, String> = names.iter().cloned().zip(vals.iter().cloned()).collect();
    let mut built2 = String::new();
    let ok2 = rd.resource_path_from_map(&mut built2, &map);
    let mut out = vec![head, V::b(ok), v_bytes_s(built.as_bytes()), V::b(ok2), v_bytes_s(built2.as_bytes())];
    if ok {
        let mut path = Path::new(built.as_str());
        match catch(|| rd.capture_match_info(&mut path)) {
            Err(e) => {
                out.push(V::t0("panic"));
                verdict.fail(format!("capture_match_info panicked on the built path: {e}"));
            }
            Ok(b) => {
                let pairs: Vec<(String, String)> = path.iter().map(|(k, v)| (k.to_string(), v.to_string())).collect();
                out.push(V::b(b));
                out.push(v_pairs(&pairs));
                out.push(v_bytes_s(path.unprocessed().as_bytes()));
                // ---------------------------------------------------------- property oracle
                if let (Some(p), Pats::Single(_)) = (first.as_ref(), pats) {
                    let vars = var_list(p);
                    // what the text built from a pattern must be
                    let mut want = String::new();
                    let mut it = vals.iter();
                    for s in &p.segs {
                        match s {
                            Seg::Const(c) => want.push_str(c),
                            Seg::Var(..) => want.push_str(it.next().map(|s| s.as_str()).unwrap_or("")),
                        }
                    }
                    if built != want {
                        verdict.fail(format!("built {:?}, expected {:?}", built, want));
                    }
                    let in_lang = vars.len() <= vals.len() && vars.iter().zip(vals.iter()).all(|((_, re), v)| in_language(re, v));
                    if in_lang && delimited(prefix, p) && (!p.tail || !prefix) {
                        let want_pairs: Vec<(String, String)> = vars.iter().zip(vals.iter()).map(|((n, _), v)| ((*n).clone(), v.clone())).collect();
                        if !b || pairs != want_pairs || !path.unprocessed().is_empty() {
                            verdict.fail(format!("round trip: built {:?} from {:?}; matching it back gave {b} {:?}", built, want_pairs, pairs));
                        }
                    }
                }
            }
        }
    }
    V::T("build", out)
}

/// reference decoder: left to right, decode `%XY` iff X, Y are hex digits and the byte is not protected
fn reference_decode(prot: &[u8], s: &[u8]) -> Vec<u8> {
    fn hv(b: u8) -> Option<u8> {
        match b {
            b'0'..=b'9' => Some(b - b'0'),
            b'a'..=b'f' => Some(b - b'a' + 10),
            b'A'..=b'F' => Some(b - b'A' + 10),
            _ => None,
        }
    }
    let mut out = vec![];
    let mut i = 0;
    while i < s.len() {
        if s[i] == b'%' && i + 2 < s.len() {
            if let (Some(h), Some(l)) = (hv(s[i + 1]), hv(s[i + 2])) {
                let ch = h * 16 + l;
                if !prot.contains(&ch) {
                    out.push(ch);
                    i += 3;
                    continue;
                }
            }
        }
        out.push(s[i]);
        i += 1;
    }
    out
}

fn make_quoter(prot: &[u8], verdict: &mut Verdict) -> Option<Quoter> {
    match catch(|| Quoter::new(b"", prot)) {
        Ok(q) => Some(q),
        Err(_) => {
            if prot.iter().all(|b| *b < 128) {
                verdict.fail("Quoter::new panicked on ASCII protected set".into());
            }
            None
        }
    }
}

/// one requote call, judged against the reference decoder
fn quote_one(q: &Quoter, prot: &[u8], s: &[u8], verdict: &mut Verdict) -> V {
    let r = q.requote(s);
    let want = reference_decode(prot, s);
    match &r {
        None => {
            if want != s {
                verdict.fail(format!("requote({}) = None, reference decoder gives {}", hex(s), hex(&want)));
            }
        }
        Some(d) => {
            if *d != want {
                verdict.fail(format!("requote({}) = {}, reference decoder gives {}", hex(s), hex(d), hex(&want)));
            }
            if d.len() >= s.len() {
                verdict.fail(format!("requote({}) returned Some without shortening the input", hex(s)));
            }
            for p in prot {
                if *p != b'%' && !p.is_ascii_hexdigit() {
                    let c1 = s.iter().filter(|b| *b == p).count();
                    let c2 = d.iter().filter(|b| *b == p).count();
                    if c1 != c2 {
                        verdict.fail(format!("requote({}): occurrences of protected byte {p:#x} changed from {c1} to {c2}", hex(s)));
                    }
                }
            }
        }
    }
    V::opt(r, |d| v_bytes_s(&d))
}

fn run_quote(prot: &[u8], s: &[u8], verdict: &mut Verdict) -> V {
    match make_quoter(prot, verdict) {
        None => V::T("quote", vec![V::t0("panic")]),
        Some(q) => V::T("quote", vec![quote_one(&q, prot, s, verdict)]),
    }
}

fn run_quotes(prot: &[u8], ss: &[String], verdict: &mut Verdict) -> V {
    match make_quoter(prot, verdict) {
        None => V::T("quotes", vec![V::t0("panic")]),
        Some(q) => V::T("quotes", ss.iter().map(|s| quote_one(&q, prot, &unhex(s), verdict)).collect()),
    }
}

// ------------------------------------------------------------------------------------ generator
const ALPHA: &[u8] = b"ab/-%2F1";
const QALPHA: &[u8] = b"%25Ff/+aG";
const VAR_NAMES: &[&str] = &["a", "b", "c", "d", "id", "x1"];

fn regex_menu() -> Vec<Vec<Atom>> {
    use Atom::*;
    use Quant::*;
    vec![
        default_re(),
        default_re(),
        default_re(),
        vec![Cls(self::Cls::Digit, Plus)],
        vec![Cls(self::Cls::Lower, Plus)],
        vec![Cls(self::Cls::NotSlash, Star)],
        vec![Cls(self::Cls::Digit, Rep(2))],
        vec![Cls(self::Cls::HexLower, Rep(8))],
        vec![Cls(self::Cls::HexLower, Rep(2))],
        vec![Cls(self::Cls::Word, Plus)],
        vec![Cls(self::Cls::Lower, Opt)],
        vec![Cls(self::Cls::Lower, One), Cls(self::Cls::Digit, Star)],
        vec![Cls(self::Cls::Lower, Plus), Cls(self::Cls::Digit, Star)],
        vec![Lit('a'), Cls(self::Cls::Digit, Plus)],
        vec![Cls(self::Cls::NotSlash, Star), Lit('2'), Cls(self::Cls::NotSlash, Star)],
        vec![Cls(self::Cls::Digit, Plus), Lit('-'), Cls(self::Cls::Digit, Plus)],
        vec![Cls(self::Cls::Lower, Opt), Cls(self::Cls::NotSlash, Plus)],
        vec![Cls(self::Cls::Word, Star), Cls(self::Cls::Lower, Rep(1))],
    ]
}

fn gen_pattern(rng: &mut Rng, allow_tail: bool) -> Pattern {
    let nseg = rng.range(1, 4) as usize;
    let menu = regex_menu();
    let mut segs = vec![];
    let mut used = 0usize;
    let mut names: Vec<&str> = VAR_NAMES.to_vec();
    // shuffle names a little
    let rot = rng.below(names.len() as u64) as usize;
    names.rotate_left(rot);
    for i in 0..nseg {
        let sep = match rng.below(12) {
            0..=6 => "/",
            7 => "-",
            8 => "",
            9 => "/a/",
            10 => "/ab",
            _ => "//",
        };
        let sep = if i == 0 && rng.chance(9, 10) { "/" } else { sep };
        if !sep.is_empty() {
            segs.push(Seg::Const(sep.to_string()));
        }
        match rng.below(10) {
            0..=2 => {
                let c = if UNI.with(|u| u.get()) && rng.chance(1, 3) {
                    rng.pick(&["\u{20ac}", "a\u{a1}", "\u{1f600}b", "\u{a1}\u{20ac}"]).to_string()
                } else {
                    rng.pick(&["a", "ab", "2", "b-a", "1F", "%2F", "user", "b"]).to_string()
                };
                segs.push(Seg::Const(c))
            }
            _ => {
                let re = rng.pick(&menu).clone();
                segs.push(Seg::Var(names[used].to_string(), re));
                used += 1;
            }
        }
    }
    let mut tail = false;
    if allow_tail && rng.chance(1, 6) {
        segs.push(Seg::Const("/".to_string()));
        segs.push(Seg::Var("t".to_string(), tail_re()));
        tail = true;
    } else if rng.chance(1, 6) {
        segs.push(Seg::Const("/".to_string()));
    }
    Pattern { segs, tail }
}

/// a string in the language of `re` (small, over the path alphabet where possible)
fn gen_value(rng: &mut Rng, re: &[Atom]) -> String {
    let mut s = String::new();
    for a in re {
        match a {
            Atom::Lit(c) => s.push(*c),
            Atom::Cls(c, q) => {
                let k = match q {
                    Quant::One => 1,
                    Quant::Plus => rng.range(1, 3),
                    Quant::Star => rng.range(0, 2),
                    Quant::Opt => rng.range(0, 1),
                    Quant::Rep(n) => *n as u64,
                };
                let pool: &[u8] = match c {
                    Cls::Any => b"ab/-%2F1",
                    Cls::NotSlash => b"ab-%2F1",
                    Cls::Digit => b"21",
                    Cls::Lower => b"ab",
                    Cls::HexLower => b"ab21",
                    Cls::Word => b"ab2F1",
                };
                for _ in 0..k {
                    s.push(pick_char(rng, pool, matches!(c, Cls::Any | Cls::NotSlash)));
                }
            }
        }
    }
    s
}

fn instantiate(rng: &mut Rng, p: &Pattern) -> (String, Vec<String>) {
    let mut s = String::new();
    let mut vals = vec![];
    for sg in &p.segs {
        match sg {
            Seg::Const(c) => s.push_str(c),
            Seg::Var(_, re) => {
                let v = gen_value(rng, re);
                s.push_str(&v);
                vals.push(v);
            }
        }
    }
    (s, vals)
}

thread_local! {
    /// may the case under construction contain non-ASCII characters?
    static UNI: std::cell::Cell<bool> = std::cell::Cell::new(false);
}
/// non-ASCII characters of 2, 3 and 4 bytes; none of them is a `\w` or `\d` character
const SYMBOLS: &[char] = &['\u{a1}', '\u{20ac}', '\u{1f600}'];

fn pick_char(rng: &mut Rng, pool: &[u8], allow_symbol: bool) -> char {
    if allow_symbol && UNI.with(|u| u.get()) && rng.chance(1, 5) {
        *rng.pick(SYMBOLS)
    } else {
        *rng.pick(pool) as char
    }
}

fn random_path(rng: &mut Rng, max: usize) -> String {
    let n = rng.range(0, max as u64) as usize;
    (0..n).map(|_| pick_char(rng, ALPHA, true)).collect()
}

fn mutate(rng: &mut Rng, s: &str) -> String {
    let mut b: Vec<char> = s.chars().collect();
    match rng.below(4) {
        0 if !b.is_empty() => {
            let i = rng.below(b.len() as u64) as usize;
            b.remove(i);
        }
        1 => {
            let i = rng.below(b.len() as u64 + 1) as usize;
            b.insert(i, pick_char(rng, ALPHA, true));
        }
        2 if !b.is_empty() => {
            let i = rng.below(b.len() as u64) as usize;
            b[i] = pick_char(rng, ALPHA, true);
        }
        _ => b.push(pick_char(rng, ALPHA, true)),
    }
    b.into_iter().collect()
}

fn gen_paths_for(rng: &mut Rng, first: Option<(&Pattern, bool)>, all: &[&Pattern], n: usize) -> Vec<PathSpec> {
    let mut out = vec![];
    for _ in 0..n {
        let roll = rng.below(100);
        let spec = if roll < 35 {
            // instance of some pattern (+ continuation for prefix resources)
            let (p, is_first) = if let (Some((p, _)), true) = (first, rng.chance(2, 3)) { (p, true) } else { (*rng.pick(all), false) };
            let (mut s, _) = instantiate(rng, p);
            let prefix = first.map(|x| x.1).unwrap_or(false);
            let mut hit = is_first && first.is_some();
            if prefix && !p.tail && rng.chance(1, 2) {
                s.push('/');
                s.push_str(&random_path(rng, 3));
            } else if rng.chance(1, 10) {
                s.push_str(&random_path(rng, 2));
                hit = false;
            }
            PathSpec::Plain { p: s, hit }
        } else if roll < 60 {
            let p = *rng.pick(all);
            let (s, _) = instantiate(rng, p);
            PathSpec::Plain { p: mutate(rng, &s), hit: false }
        } else if roll < 95 {
            PathSpec::Plain { p: random_path(rng, 7), hit: false }
        } else {
            PathSpec::Plain { p: random_path(rng, 40), hit: false }
        };
        out.push(spec);
    }
    out
}

fn gen_pats(rng: &mut Rng) -> Pats {
    match rng.below(10) {
        0..=5 => Pats::Single(gen_pattern(rng, true)),
        6 => Pats::List(vec![gen_pattern(rng, true)]),
        7 if rng.chance(1, 4) => Pats::List(vec![]),
        _ => {
            let k = rng.range(2, 3) as usize;
            Pats::List((0..k).map(|_| gen_pattern(rng, true)).collect())
        }
    }
}

fn gen_match_case(rng: &mut Rng, npaths: usize) -> Case {
    let mut defs = vec![];
    let two = rng.chance(1, 4);
    if two {
        // a prefix definition followed by a definition for the rest (as nested scopes do)
        defs.push(Def { prefix: true, pats: Pats::Single(gen_pattern(rng, false)) });
        defs.push(Def { prefix: rng.chance(1, 3), pats: gen_pats(rng) });
    } else {
        defs.push(Def { prefix: rng.chance(2, 5), pats: gen_pats(rng) });
    }
    let all: Vec<Pattern> = defs.iter().flat_map(|d| pats_list(&d.pats).into_iter().cloned()).collect();
    let allr: Vec<&Pattern> = all.iter().collect();
    let mut paths = if allr.is_empty() {
        (0..npaths).map(|_| PathSpec::Plain { p: random_path(rng, 5), hit: false }).collect()
    } else {
        let first = match &defs[0].pats {
            Pats::Single(p) => Some((p, defs[0].prefix)),
            _ => None,
        };
        gen_paths_for(rng, first, &allr, npaths)
    };
    if two && all.len() > 1 {
        // concatenated instances: prefix instance + instance of the second definition
        for _ in 0..npaths / 3 {
            let (a, _) = instantiate(rng, &all[0]);
            let second = rng.pick(&all[1..]).clone();
            let (b, _) = instantiate(rng, &second);
            paths.push(PathSpec::Plain { p: format!("{a}{b}"), hit: false });
        }
    }
    Case::Match { defs, paths }
}

/// long paths: exercise the u16 offsets; shapes chosen so that a backtracking matcher stays linear
fn gen_long_case(rng: &mut Rng, over_limit: bool) -> Case {
    let n = if over_limit {
        *rng.pick(&[65536usize, 65537, 65600, 70000, 131072 + 5])
    } else {
        *rng.pick(&[255usize, 256, 4096, 32767, 32768, 65000, 65530, 65533])
    };
    let var = |n: &str| Seg::Var(n.to_string(), default_re());
    let k = |s: &str| Seg::Const(s.to_string());
    match rng.below(4) {
        0 => Case::Match {
            defs: vec![Def { prefix: false, pats: Pats::Single(Pattern { segs: vec![k("/"), var("a")], tail: false }) }],
            paths: vec![PathSpec::Rep { pre: "/".into(), n: n - 1, unit: "c".into(), post: "".into() }],
        },
        1 => Case::Match {
            defs: vec![
                Def { prefix: true, pats: Pats::Single(Pattern { segs: vec![k("/"), var("a")], tail: false }) },
                Def { prefix: false, pats: Pats::Single(Pattern { segs: vec![k("/"), var("b"), k("/x")], tail: false }) },
            ],
            paths: vec![PathSpec::Rep { pre: "/".into(), n: n - 6, unit: "c".into(), post: "/ab/x".into() }],
        },
        2 => Case::Match {
            defs: vec![Def { prefix: false, pats: Pats::Single(Pattern { segs: vec![k("/a/"), Seg::Var("t".into(), tail_re())], tail: true }) }],
            paths: vec![PathSpec::Rep { pre: "/a/".into(), n: (n - 3) / 2, unit: "c/".into(), post: "".into() }],
        },
        _ => Case::Match {
            defs: vec![
                Def { prefix: true, pats: Pats::Single(Pattern { segs: vec![k("/ab")], tail: false }) },
                Def { prefix: true, pats: Pats::Single(Pattern { segs: vec![k("/"), var("a")], tail: false }) },
                Def { prefix: false, pats: Pats::Single(Pattern { segs: vec![k("/"), var("b")], tail: false }) },
            ],
            paths: vec![PathSpec::Rep { pre: "/ab/".into(), n: n - 7, unit: "c".into(), post: "/bb".into() }],
        },
    }
}

fn gen_build_case(rng: &mut Rng) -> Case {
    let prefix = rng.chance(1, 4);
    let p = gen_pattern(rng, true);
    let (_, mut vals) = instantiate(rng, &p);
    match rng.below(10) {
        0 => {
            vals.pop();
        }
        1 => vals.push("zz".into()),
        2 | 3 => {
            // a value outside its language / containing the delimiter
            if !vals.is_empty() {
                let i = rng.below(vals.len() as u64) as usize;
                vals[i] = random_path(rng, 4);
            }
        }
        _ => {}
    }
    let pats = if rng.chance(1, 6) { Pats::List(vec![p.clone(), gen_pattern(rng, true)]) } else { Pats::Single(p) };
    Case::Build { prefix, pats, vals }
}

fn gen_quote_case(rng: &mut Rng) -> Case {
    let prot: &[u8] = *rng.pick(&[&b"%/+"[..], b"", b"+", b"/", b"%", b"%/+ a", b"\x00\x7f"]);
    let prot = if rng.chance(1, 40) { vec![b'/', 0x80 + rng.below(128) as u8] } else { prot.to_vec() };
    let n = rng.range(0, 24) as usize;
    let s: Vec<u8> = match rng.below(5) {
        0 => rng.bytes(n),
        1 => {
            // valid escapes of random bytes
            let mut v = vec![];
            for _ in 0..n / 3 {
                if rng.chance(1, 3) {
                    v.push(*rng.pick(QALPHA));
                } else {
                    let b = if rng.chance(1, 2) { *rng.pick(b"%/+ aA\x00\x7f\x80\xff") } else { rng.next() as u8 };
                    let e = if rng.chance(1, 2) { format!("%{:02X}", b) } else { format!("%{:02x}", b) };
                    v.extend_from_slice(e.as_bytes());
                }
            }
            v
        }
        _ => (0..n).map(|_| *rng.pick(QALPHA)).collect(),
    };
    Case::Quote { prot: hex(&prot), s: hex(&s) }
}

// ------------------------------------------------------------------------------------- emission
thread_local! {
    /// cases are buffered and emitted interleaved (expensive ones spread among the cheap ones) so
    /// that the model-evaluation shards of tools/check.py are balanced
    static BUFFER: std::cell::RefCell<(Vec<CaseOut>, Vec<CaseOut>)> = std::cell::RefCell::new((vec![], vec![]));
}

fn flush(em: &mut Emitter) {
    let (heavy, light) = BUFFER.with(|b| std::mem::take(&mut *b.borrow_mut()));
    let per = if heavy.is_empty() { 0 } else { light.len() / heavy.len() };
    let mut light = light.into_iter();
    for h in heavy {
        em.emit(h);
        for _ in 0..per {
            if let Some(l) = light.next() {
                em.emit(l);
            }
        }
    }
    for l in light {
        em.emit(l);
    }
}

fn emit_case(em: &mut Emitter, id: String, case: Case, totals: &mut Stats) {
    let mut verdict = Verdict(Ok(()));
    let mut stats = Stats::default();
    let r = catch(|| match &case {
        Case::Match { defs, paths } => run_match(defs, paths, &mut verdict, &mut stats),
        Case::Build { prefix, pats, vals } => run_build(*prefix, pats, vals, &mut verdict),
        Case::Quote { prot, s } => run_quote(&unhex(prot), &unhex(s), &mut verdict),
        Case::QuoteS { prot, ss } => run_quotes(&unhex(prot), ss, &mut verdict),
    });
    totals.pairs += stats.pairs;
    totals.matched += stats.matched;
    let mut tags = vec![];
    let nontrivial;
    match &case {
        Case::Match { defs, paths } => {
            tags.push("kind:match".to_string());
            let non_ascii = paths.iter().any(|p| !path_string(p).is_ascii())
                || defs.iter().any(|d| pats_list(&d.pats).iter().any(|p| !pattern_text(p).is_ascii()));
            tags.push(format!("charset:{}", if non_ascii { "non-ascii" } else { "ascii" }));
            tags.push(format!("defs:{}", defs.len()));
            for d in defs {
                tags.push(format!("def:{}", if d.prefix { "prefix" } else { "full" }));
                match &d.pats {
                    Pats::Single(p) => tags.push(format!("pats:single-{}", if is_static(p) { "static" } else if p.tail { "tail" } else { "dynamic" })),
                    Pats::List(l) => tags.push(format!("pats:list{}", l.len())),
                }
            }
            let longest = paths.iter().map(|p| path_string(p).len()).max().unwrap_or(0);
            tags.push(format!(
                "pathlen:{}",
                match longest {
                    0..=7 => "0-7",
                    8..=64 => "8-64",
                    65..=65535 => "65-65535",
                    _ => "over-url-limit",
                }
            ));
            if stats.matched > 0 {
                tags.push("some-match".into());
            }
            if stats.matched < stats.pairs {
                tags.push("some-mismatch".into());
            }
            nontrivial = stats.matched > 0 && stats.matched < stats.pairs || longest > 64;
        }
        Case::Build { pats, .. } => {
            tags.push("kind:build".to_string());
            tags.push(format!("build:{}", if let Pats::Single(p) = pats { if delimited(false, p) { "delimited" } else { "not-delimited" } } else { "list" }));
            nontrivial = true;
        }
        Case::QuoteS { ss, .. } => {
            tags.push("kind:quote-batch".to_string());
            totals.quotes += ss.len();
            nontrivial = ss.iter().any(|s| unhex(s).contains(&b'%'));
        }
        Case::Quote { s, .. } => {
            tags.push("kind:quote".to_string());
            totals.quotes += 1;
            let b = unhex(s);
            nontrivial = b.contains(&b'%');
            tags.push(format!("quote:{}", if nontrivial { "has-percent" } else { "no-percent" }));
        }
    }
    tags.sort();
    tags.dedup();
    let (expect, show, ok, why) = match r {
        Ok(v) => (Some({ let mut s = String::from("(VH \""); ser(&v, &mut s); s.push_str("\")"); s }), v.show(), verdict.0.is_ok(), verdict.0.err().unwrap_or_default()),
        Err(p) => {
            em.panics += 1;
            (None, format!("PANIC {p}"), false, format!("implementation panicked: {p}"))
        }
    };
    let mut show_short = show.clone();
    show_short.truncate(3000);
    let heavy = id.starts_with("exh-") || id.starts_with("qexh-") || id.starts_with("long-");
    let out = CaseOut {
        id,
        input: serde_json::to_value(&case).unwrap(),
        coq_case: Some(coq_case(&case)),
        expect,
        sig: String::new(),
        impl_show: show_short,
        oracle_ok: ok,
        oracle_why: why,
        known_class: String::new(),
        nontrivial,
        tags,
    };
    BUFFER.with(|b| if heavy { b.borrow_mut().0.push(out) } else { b.borrow_mut().1.push(out) });
}

fn all_strings(alpha: &[u8], max_len: usize) -> Vec<Vec<u8>> {
    let mut out: Vec<Vec<u8>> = vec![vec![]];
    let mut start = 0;
    for _ in 0..max_len {
        let end = out.len();
        for i in start..end {
            for a in alpha {
                let mut v = out[i].clone();
                v.push(*a);
                out.push(v);
            }
        }
        start = end;
    }
    out
}

fn main() {
    let args = parse_args();
    let mut em = Emitter::default();
    let mut totals = Stats::default();
    for (id, j) in args.fixed_inputs() {
        let case: Case = serde_json::from_value(j).expect("case");
        emit_case(&mut em, id, case, &mut totals);
    }
    if args.case.is_none() {
        let mut rng = Rng::new(args.seed);
        let thorough = args.thorough();
        let n = args.n.unwrap_or(if thorough { 2000 } else { 400 });
        let npaths = if thorough { 48 } else { 30 };
        // (a) exhaustive blocks: a pattern × every path over the alphabet up to a length
        let exh_patterns = if args.n.is_some() { 0 } else if thorough { 8 } else { 3 };
        let exh_len = if thorough { 5 } else { 4 };
        let every = all_strings(ALPHA, exh_len);
        for i in 0..exh_patterns {
            let mut r = rng.fork();
            let def = Def { prefix: r.chance(2, 5), pats: if r.chance(3, 4) { Pats::Single(gen_pattern(&mut r, true)) } else { gen_pats(&mut r) } };
            for (j, chunk) in every.chunks(200).enumerate() {
                let paths = chunk.iter().map(|b| PathSpec::Plain { p: String::from_utf8(b.clone()).unwrap(), hit: false }).collect();
                emit_case(&mut em, format!("exh-{i}-{j}"), Case::Match { defs: vec![def.clone()], paths }, &mut totals);
            }
        }
        // (b) exhaustive quoter inputs
        if args.n.is_none() {
            let qlen = if thorough { 5 } else { 4 };
            let qs = all_strings(QALPHA, qlen);
            // every string containing '%' (those without are all alike: every 50th), under three
            // protected sets, 300 inputs per case
            let mut k = 0;
            let sel: Vec<String> = qs
                .iter()
                .filter(|s| {
                    k += 1;
                    s.contains(&b'%') || k % 50 == 0
                })
                .map(|s| hex(s))
                .collect();
            for (pi, prot) in [&b""[..], b"%/+", b"/"].iter().enumerate() {
                for (j, chunk) in sel.chunks(300).enumerate() {
                    emit_case(&mut em, format!("qexh-{pi}-{j}"), Case::QuoteS { prot: hex(prot), ss: chunk.to_vec() }, &mut totals);
                }
            }
        }
        // (c) long paths
        if args.n.is_none() {
            for i in 0..(if thorough { 24 } else { 6 }) {
                let mut r = rng.fork();
                emit_case(&mut em, format!("long-{i}"), gen_long_case(&mut r, i % 3 == 2), &mut totals);
            }
        }
        // (d) random structured cases
        for i in 0..n {
            let mut r = rng.fork();
            // every sixth random case may contain non-ASCII characters (2-4 bytes)
            UNI.with(|u| u.set(i % 6 == 5));
            let case = match i % 10 {
                0..=5 => gen_match_case(&mut r, npaths),
                6 | 7 => gen_build_case(&mut r),
                _ => gen_quote_case(&mut r),
            };
            emit_case(&mut em, format!("gen-{i}"), case, &mut totals);
        }
    }
    flush(&mut em);
    em.tags.insert("pattern-path-pairs".into(), totals.pairs);
    em.tags.insert("pattern-path-pairs-matching".into(), totals.matched);
    em.tags.insert("quoter-inputs".into(), totals.quotes);
    em.finish();
}
