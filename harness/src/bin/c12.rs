//! C12 — body extractors never accept or buffer more than their configured limit.
//!
//! Implementation runner (the real extractors, fed by a counting streaming payload), property
//! oracle (judges the statement of C12 on what the extractor did, from the case alone), generator,
//! printer of the case as a Gallina term for `Run/RunC12.v`.
//!
//! The extractors see the payload after `Decompress`; what the real `Decoder` makes of each wire
//! chunk (decoded chunk / nothing / error) is recorded by a twin run of `actix_http::encoding::
//! Decoder` on the same wire chunks and is part of the case given to the model (the decoder machine
//! itself belongs to C13). Likewise the chunks a multipart `Field` delivers are recorded by a twin
//! run of `Multipart` (the parser belongs to C15).

use std::{
    cell::Cell,
    collections::VecDeque,
    io::Write as _,
    pin::Pin,
    rc::Rc,
    task::{Context, Poll},
};

use actix_http::{
    body::{self, BodySize, MessageBody},
    encoding::Decoder,
    error::PayloadError,
    header::ContentEncoding,
    BoxedPayloadStream,
};
use actix_multipart::{
    form::{bytes::Bytes as MpBytes, text::Text, MultipartForm, MultipartFormConfig},
    Multipart, MultipartError,
};
use actix_web::{
    dev,
    error::{JsonPayloadError, UrlencodedError},
    test::TestRequest,
    web, FromRequest,
};
use bytes::Bytes;
use futures_core::Stream;
use futures_util::{StreamExt as _, TryStreamExt as _};
use serde::{Deserialize, Serialize};
use vh::*;

// ------------------------------------------------------------------------------------------ case

#[derive(Serialize, Deserialize, Clone, Debug, Default)]
struct BodySpec {
    /// runs | rand | json | badjson | form | badutf8
    kind: String,
    len: usize,
    seed: u64,
}

#[derive(Serialize, Deserialize, Clone, Debug, Default)]
struct MpField {
    name: u8,
    len: usize,
}

#[derive(Serialize, Deserialize, Clone, Debug, Default)]
struct Case {
    /// bytes | string | json | form | payload_tbl | body_tbl | field_bytes | multipart
    ext: String,
    /// None: no config in app data
    limit: Option<u64>,
    /// Content-Length header value (None: absent)
    #[serde(default)]
    cl: Option<String>,
    /// identity | gzip | deflate | br | zstd
    #[serde(default)]
    enc: String,
    #[serde(default)]
    body: BodySpec,
    /// cut points of the wire bytes
    #[serde(default)]
    cuts: Vec<usize>,
    /// flip this wire byte (index, xor mask)
    #[serde(default)]
    corrupt: Option<(usize, u8)>,
    /// drop the wire bytes from this offset
    #[serde(default)]
    truncate: Option<usize>,
    #[serde(default = "yes")]
    ctype_ok: bool,
    /// the payload stream answers Pending (with a wake) before every item
    #[serde(default)]
    pend: bool,
    /// body_tbl: none | stream | sized:<n>
    #[serde(default)]
    size: String,
    /// multipart: memory limit (limit = total limit) and fields
    #[serde(default)]
    memory: Option<u64>,
    #[serde(default)]
    fields: Vec<MpField>,
}
fn yes() -> bool {
    true
}

const PAYLOAD_DEFAULT: u64 = 262_144;
const JSON_DEFAULT: u64 = 2_097_152;
const FORM_DEFAULT: u64 = 16_384;
const MP_TOTAL_DEFAULT: u64 = 52_428_800;
const MP_MEMORY_DEFAULT: u64 = 2_097_152;
/// largest decoded body the Coq model is asked to evaluate
const MODEL_MAX: usize = 600_000;

fn runs(len: usize, seed: u64) -> Vec<u8> {
    let mut r = Rng::new(seed);
    let mut out = Vec::with_capacity(len);
    let mut i = 0u64;
    while out.len() < len {
        let left = len - out.len();
        let run = (r.range(1, (len as u64 / 3).max(1)) as usize).min(left);
        let letter = b'a' + (i % 26) as u8;
        out.extend(std::iter::repeat(letter).take(run));
        i += 1 + r.below(3);
    }
    out
}

fn gen_body(b: &BodySpec) -> Vec<u8> {
    let n = b.len;
    match b.kind.as_str() {
        "rand" => Rng::new(b.seed).bytes(n),
        "json" => match n {
            0 => vec![],
            1 => b"7".to_vec(),
            _ => {
                let mut v = vec![b'"'];
                v.extend(runs(n - 2, b.seed));
                v.push(b'"');
                v
            }
        },
        "form" => match n {
            0 => vec![],
            1 => b"a".to_vec(),
            2 => b"ab".to_vec(),
            _ => {
                let mut v = b"a=".to_vec();
                v.extend(runs(n - 2, b.seed));
                v
            }
        },
        "badutf8" => {
            let mut v = runs(n, b.seed);
            if n > 0 {
                v[n / 2] = 0xff;
            }
            v
        }
        _ => runs(n, b.seed), // runs, badjson
    }
}

fn encode(enc: &str, data: &[u8]) -> Vec<u8> {
    match enc {
        "gzip" => {
            let mut e = flate2::write::GzEncoder::new(Vec::new(), flate2::Compression::fast());
            e.write_all(data).unwrap();
            e.finish().unwrap()
        }
        "deflate" => {
            let mut e = flate2::write::ZlibEncoder::new(Vec::new(), flate2::Compression::fast());
            e.write_all(data).unwrap();
            e.finish().unwrap()
        }
        "br" => {
            let mut out = Vec::new();
            {
                let mut w = brotli::CompressorWriter::new(&mut out, 4096, 3, 22);
                w.write_all(data).unwrap();
                w.flush().unwrap();
            }
            out
        }
        "zstd" => zstd::stream::encode_all(data, 3).unwrap(),
        _ => data.to_vec(),
    }
}

fn content_encoding(enc: &str) -> ContentEncoding {
    match enc {
        "gzip" => ContentEncoding::Gzip,
        "deflate" => ContentEncoding::Deflate,
        "br" => ContentEncoding::Brotli,
        "zstd" => ContentEncoding::Zstd,
        _ => ContentEncoding::Identity,
    }
}

// ------------------------------------------------------------------------------ counting stream

struct CountStream {
    items: VecDeque<Bytes>,
    pulls: Rc<Cell<usize>>,
    pend: bool,
    parked: bool,
}
impl Stream for CountStream {
    type Item = Result<Bytes, PayloadError>;
    fn poll_next(mut self: Pin<&mut Self>, cx: &mut Context<'_>) -> Poll<Option<Self::Item>> {
        if self.pend && !self.parked {
            self.parked = true;
            cx.waker().wake_by_ref();
            return Poll::Pending;
        }
        self.parked = false;
        self.pulls.set(self.pulls.get() + 1);
        Poll::Ready(self.items.pop_front().map(Ok))
    }
}
fn count_stream(chunks: &[Vec<u8>], pend: bool) -> (CountStream, Rc<Cell<usize>>) {
    let pulls = Rc::new(Cell::new(0));
    (
        CountStream { items: chunks.iter().map(|c| Bytes::from(c.clone())).collect(), pulls: pulls.clone(), pend, parked: false },
        pulls,
    )
}
fn payload(chunks: &[Vec<u8>], pend: bool) -> (dev::Payload, Rc<Cell<usize>>) {
    let (s, p) = count_stream(chunks, pend);
    (dev::Payload::from(Box::pin(s) as BoxedPayloadStream), p)
}

// ------------------------------------------------------------------------------------ wire view

#[derive(Clone, Debug)]
enum Wi {
    Out(Vec<u8>),
    Skip,
    Fail,
}
#[derive(Clone, Debug)]
enum Tail {
    None,
    Data(Vec<u8>),
    Fail,
}

/// twin run of the real Decoder: what it makes of every wire chunk
async fn wire_view(chunks: &[Vec<u8>], enc: &str) -> (Vec<Wi>, Tail) {
    let (s, pulls) = count_stream(chunks, false);
    let mut d = Decoder::new(s, content_encoding(enc));
    let n = chunks.len();
    let mut items: Vec<Wi> = vec![];
    let mut tail = Tail::None;
    loop {
        let item = d.next().await;
        let p = pulls.get();
        while items.len() + 1 < p.min(n + 1) {
            items.push(Wi::Skip);
        }
        match item {
            Some(Ok(c)) => {
                if p <= n {
                    items.push(Wi::Out(c.to_vec()));
                } else {
                    tail = Tail::Data(c.to_vec());
                }
            }
            Some(Err(_)) => {
                if p <= n {
                    items.push(Wi::Fail);
                } else {
                    tail = Tail::Fail;
                }
                return (items, tail); // every extractor stops at the first stream error
            }
            None => {
                while items.len() < n {
                    items.push(Wi::Skip);
                }
                return (items, tail);
            }
        }
    }
}

// ---------------------------------------------------------------------------------- Gallina terms

fn coq_chunk(b: &[u8]) -> String {
    let mut segs: Vec<String> = vec![];
    let mut lit: Vec<u8> = vec![];
    let mut i = 0;
    while i < b.len() {
        let mut j = i;
        while j < b.len() && b[j] == b[i] {
            j += 1;
        }
        if j - i >= 8 {
            if !lit.is_empty() {
                segs.push(format!("Lit {}", coq_bytes(&lit)));
                lit.clear();
            }
            segs.push(format!("Rep {} {}", j - i, b[i]));
        } else {
            lit.extend_from_slice(&b[i..j]);
        }
        i = j;
    }
    if !lit.is_empty() {
        segs.push(format!("Lit {}", coq_bytes(&lit)));
    }
    format!("[{}]", segs.join("; "))
}
fn coq_wire(ws: &[Wi], t: &Tail) -> String {
    // runs of equal decoded chunks (byte-wise chunking of a run of letters) are written once
    let mut parts: Vec<String> = vec![];
    let mut i = 0;
    while i < ws.len() {
        match &ws[i] {
            Wi::Out(c) => {
                let mut j = i;
                while j < ws.len() && matches!(&ws[j], Wi::Out(d) if d == c) {
                    j += 1;
                }
                if j - i >= 3 {
                    parts.push(format!("Wn {} {}", j - i, coq_chunk(c)));
                } else {
                    for _ in i..j {
                        parts.push(format!("Wo {}", coq_chunk(c)));
                    }
                }
                i = j;
            }
            Wi::Skip => {
                parts.push("Ws".into());
                i += 1;
            }
            Wi::Fail => {
                parts.push("Wf".into());
                i += 1;
            }
        }
    }
    let items = format!("[{}]", parts.join("; "));
    let tail = match t {
        Tail::None => "TNone".to_string(),
        Tail::Data(c) => format!("(TData {})", coq_chunk(c)),
        Tail::Fail => "TFail".to_string(),
    };
    format!("{} {}", items, tail)
}
fn coq_optn(o: Option<u64>) -> String {
    coq_opt(&o, |n| n.to_string())
}
fn coq_cl(cl: &Option<String>) -> String {
    match cl {
        None => "CLAbsent".into(),
        Some(s) => match s.parse::<usize>() {
            Ok(n) => format!("(CLNum {})", n),
            Err(_) => "CLBad".into(),
        },
    }
}

fn hash(b: &[u8]) -> u128 {
    let mut h: u128 = 0;
    for (i, &x) in b.iter().enumerate() {
        h += (i as u128 + 1) * (x as u128 + 1);
    }
    h
}

// ---------------------------------------------------------------------------------------- outcome

#[derive(Clone, Debug, PartialEq)]
enum Out {
    Ok(Vec<u8>),
    Parse,
    Overflow,
    OverflowAt(usize, usize),
    OverflowKnown(usize, usize),
    UnknownLength,
    ContentType,
    StreamErr,
    Other(String),
}
impl Out {
    fn v(&self) -> V {
        match self {
            Out::Ok(b) => V::T("ok", vec![V::us(b.len()), V::n(hash(b))]),
            Out::Parse => V::t0("parse"),
            Out::Overflow => V::t0("overflow"),
            Out::OverflowAt(s, l) => V::T("overflow_at", vec![V::us(*s), V::us(*l)]),
            Out::OverflowKnown(s, l) => V::T("overflow_known", vec![V::us(*s), V::us(*l)]),
            Out::UnknownLength => V::t0("unknown_length"),
            Out::ContentType => V::t0("content_type"),
            Out::StreamErr => V::t0("stream"),
            Out::Other(_) => V::t0("other"),
        }
    }
    fn is_overflow(&self) -> bool {
        matches!(self, Out::Overflow | Out::OverflowAt(..) | Out::OverflowKnown(..))
    }
}

fn payload_err(e: &PayloadError) -> Out {
    match e {
        PayloadError::Overflow => Out::Overflow,
        PayloadError::UnknownLength => Out::UnknownLength,
        _ => Out::StreamErr,
    }
}

fn wire_chunks(c: &Case, body: &[u8]) -> Vec<Vec<u8>> {
    let mut wire = encode(&c.enc, body);
    if let Some(t) = c.truncate {
        wire.truncate(t.min(wire.len()));
    }
    if let Some((i, m)) = c.corrupt {
        if !wire.is_empty() {
            let k = i % wire.len();
            wire[k] ^= m | 1;
        }
    }
    if wire.is_empty() && c.cuts.is_empty() {
        // an empty body is a stream without items
        return vec![];
    }
    cut(&wire, &c.cuts)
}

fn test_request(c: &Case) -> TestRequest {
    let mut tr = TestRequest::post();
    if let Some(cl) = &c.cl {
        tr = tr.insert_header(("content-length", cl.as_str()));
    }
    if c.enc != "identity" && !c.enc.is_empty() {
        tr = tr.insert_header(("content-encoding", c.enc.as_str()));
    }
    tr
}

/// runs the extractor named by the case on the wire chunks; returns outcome and wire polls
async fn run_extractor(c: &Case, chunks: &[Vec<u8>]) -> (Out, usize) {
    let (mut pl, pulls) = payload(chunks, c.pend);
    let limit = c.limit.map(|l| l as usize);
    let out = match c.ext.as_str() {
        "bytes" | "string" => {
            let mut tr = test_request(c);
            if let Some(l) = limit {
                tr = tr.app_data(web::PayloadConfig::new(l));
            }
            let (req, _) = tr.to_http_parts();
            let classify = |e: actix_web::Error| match e.as_error::<PayloadError>() {
                Some(pe) => payload_err(pe),
                None => {
                    if e.as_response_error().status_code() == 400 {
                        Out::Parse
                    } else {
                        Out::Other(e.to_string())
                    }
                }
            };
            if c.ext == "bytes" {
                match Bytes::from_request(&req, &mut pl).await {
                    Ok(b) => Out::Ok(b.to_vec()),
                    Err(e) => classify(e),
                }
            } else {
                match String::from_request(&req, &mut pl).await {
                    Ok(s) => Out::Ok(s.into_bytes()),
                    Err(e) => classify(e),
                }
            }
        }
        "json" => {
            let mut tr = test_request(c).insert_header(("content-type", if c.ctype_ok { "application/json" } else { "text/plain" }));
            if let Some(l) = limit {
                tr = tr.app_data(web::JsonConfig::default().limit(l));
            }
            let (req, _) = tr.to_http_parts();
            match web::Json::<String>::from_request(&req, &mut pl).await {
                // the body was `"` letters `"`: the value re-quoted is the buffer that was parsed
                Ok(j) => Out::Ok(format!("\"{}\"", j.into_inner()).into_bytes()),
                Err(e) => match e.as_error::<JsonPayloadError>() {
                    Some(JsonPayloadError::OverflowKnownLength { length, limit }) => Out::OverflowKnown(*length, *limit),
                    Some(JsonPayloadError::Overflow { .. }) => Out::Overflow,
                    Some(JsonPayloadError::ContentType) => Out::ContentType,
                    Some(JsonPayloadError::Deserialize(_)) => Out::Parse,
                    Some(JsonPayloadError::Payload(pe)) => payload_err(pe),
                    _ => Out::Other(e.to_string()),
                },
            }
        }
        "form" => {
            let mut tr = test_request(c)
                .insert_header(("content-type", if c.ctype_ok { "application/x-www-form-urlencoded" } else { "text/plain" }));
            if let Some(l) = limit {
                tr = tr.app_data(web::FormConfig::default().limit(l));
            }
            let (req, _) = tr.to_http_parts();
            match web::Form::<Vec<(String, String)>>::from_request(&req, &mut pl).await {
                Ok(f) => {
                    // generated bodies are `k` or `k=v` with non-empty v: re-rendering is exact
                    let s: Vec<String> = f.into_inner().into_iter().map(|(k, v)| if v.is_empty() { k } else { format!("{k}={v}") }).collect();
                    Out::Ok(s.join("&").into_bytes())
                }
                Err(e) => match e.as_error::<UrlencodedError>() {
                    Some(UrlencodedError::Overflow { size, limit }) => Out::OverflowAt(*size, *limit),
                    Some(UrlencodedError::UnknownLength) => Out::UnknownLength,
                    Some(UrlencodedError::ContentType) => Out::ContentType,
                    Some(UrlencodedError::Parse(_)) | Some(UrlencodedError::Encoding) => Out::Parse,
                    Some(UrlencodedError::Payload(pe)) => payload_err(pe),
                    _ => Out::Other(e.to_string()),
                },
            }
        }
        "payload_tbl" => {
            // web::Payload does not decompress by itself: wrap as the other extractors do
            let (req, _) = test_request(c).to_http_parts();
            let dec = dev::Decompress::from_headers(dev::Payload::take(&mut pl), req.headers());
            let mut pl2 = dev::Payload::from(Box::pin(dec) as BoxedPayloadStream);
            let p = web::Payload::from_request(&req, &mut pl2).await.unwrap();
            match p.to_bytes_limited(limit.unwrap_or(0)).await {
                Ok(Ok(b)) => Out::Ok(b.to_vec()),
                Ok(Err(_)) => Out::StreamErr,
                Err(_) => Out::Overflow,
            }
        }
        _ => unreachable!("run_extractor: {}", c.ext),
    };
    (out, pulls.get())
}

// ----------------------------------------------------------- body::to_bytes_limited, own body type

struct TestBody {
    size: BodySize,
    s: CountStream,
}
impl MessageBody for TestBody {
    type Error = PayloadError;
    fn size(&self) -> BodySize {
        self.size
    }
    fn poll_next(mut self: Pin<&mut Self>, cx: &mut Context<'_>) -> Poll<Option<Result<Bytes, Self::Error>>> {
        Pin::new(&mut self.s).poll_next(cx)
    }
}
fn parse_size(s: &str) -> BodySize {
    match s {
        "none" => BodySize::None,
        "stream" | "" => BodySize::Stream,
        other => BodySize::Sized(other.trim_start_matches("sized:").parse().expect("size")),
    }
}

// ------------------------------------------------------------------------------------- multipart

#[derive(MultipartForm)]
struct Upload {
    #[multipart(limit = "16B")]
    f0: Option<MpBytes>,
    f1: Option<Text<String>>,
    #[multipart(limit = "100B")]
    f2: Vec<MpBytes>,
    f3: Vec<Text<String>>,
}
/// (kind term, T::limit) of a field name, as the struct above declares it
fn field_decl(name: u8) -> (&'static str, Option<u64>) {
    match name {
        0 => ("KSingle", Some(16)),
        1 => ("KSingle", None),
        2 => ("KVec", Some(100)),
        3 => ("KVec", None),
        _ => ("KUnknown", None),
    }
}
const BOUNDARY: &str = "XbOuNdArYx";
fn field_data(f: &MpField, idx: usize) -> Vec<u8> {
    runs(f.len, 1000 + idx as u64 * 7 + f.name as u64)
}
fn multipart_body(fields: &[MpField]) -> Vec<u8> {
    let mut v = vec![];
    for (i, f) in fields.iter().enumerate() {
        v.extend(format!("--{BOUNDARY}\r\ncontent-disposition: form-data; name=\"f{}\"\r\n\r\n", f.name).as_bytes());
        v.extend(field_data(f, i));
        v.extend(b"\r\n");
    }
    v.extend(format!("--{BOUNDARY}--\r\n").as_bytes());
    v
}
/// cut points strictly inside field data (the delimiter scanner's behaviour under cuts inside
/// `CRLF--boundary` is C15's subject: F7/F24 make some of those schedules stall or merge fields)
fn mp_cuts(rng: &mut Rng, fields: &[MpField]) -> Vec<usize> {
    let mut cuts = vec![];
    let mut off = 0usize;
    for f in fields.iter() {
        off += format!("--{BOUNDARY}\r\ncontent-disposition: form-data; name=\"f{}\"\r\n\r\n", f.name).len();
        if f.len >= 3 {
            match rng.below(4) {
                0 => {}
                1 => cuts.extend((off + 1)..(off + f.len - 1)),
                _ => {
                    for _ in 0..rng.range(1, 4) {
                        cuts.push(off + rng.range(1, f.len as u64 - 2) as usize);
                    }
                }
            }
        }
        off += f.len + 2;
    }
    cuts.sort();
    cuts.dedup();
    cuts
}
fn mp_request(c: &Case) -> TestRequest {
    let mut tr = TestRequest::post().insert_header(("content-type", format!("multipart/form-data; boundary={BOUNDARY}")));
    if c.limit.is_some() || c.memory.is_some() {
        tr = tr.app_data(
            MultipartFormConfig::default()
                .total_limit(c.limit.unwrap_or(MP_TOTAL_DEFAULT) as usize)
                .memory_limit(c.memory.unwrap_or(MP_MEMORY_DEFAULT) as usize),
        );
    }
    tr
}
/// twin run: the chunks every field delivers
async fn field_view(c: &Case, chunks: &[Vec<u8>]) -> Result<Vec<(String, Vec<Vec<u8>>)>, String> {
    let (req, _) = mp_request(c).to_http_parts();
    let (s, _) = count_stream(chunks, c.pend);
    let mut mp = Multipart::new(req.headers(), s);
    let mut out = vec![];
    while let Some(mut field) = mp.try_next().await.map_err(|e| e.to_string())? {
        let name = field.name().unwrap_or("").to_string();
        let mut cs = vec![];
        while let Some(ch) = field.try_next().await.map_err(|e| e.to_string())? {
            cs.push(ch.to_vec());
        }
        out.push((name, cs));
    }
    Ok(out)
}

// -------------------------------------------------------------------------------------- one case

fn emit_case(em: &mut Emitter, id: String, c: Case) {
    let c2 = c.clone();
    let r = catch(move || {
        exec::run_local(async move {
            match tokio::time::timeout(std::time::Duration::from_secs(20), run_case(&c2)).await {
                Ok(out) => out,
                // nothing in C12 may stall; a stall is reported as an oracle failure
                Err(_) => CaseOut {
                    impl_show: "STALL".into(),
                    oracle_ok: false,
                    oracle_why: "extractor did not finish within 20 s".into(),
                    tags: vec![format!("ext:{}", c2.ext), "stall".into()],
                    ..Default::default()
                },
            }
        })
    });
    let input = serde_json::to_value(&c).unwrap();
    match r {
        Ok(mut out) => {
            out.id = id;
            out.input = input;
            em.emit(out);
        }
        Err(p) => {
            em.panics += 1;
            em.emit(CaseOut {
                id,
                input,
                impl_show: format!("PANIC {p}"),
                oracle_ok: false,
                oracle_why: format!("implementation panicked: {p}"),
                tags: vec![format!("ext:{}", c.ext), "panic".into()],
                ..Default::default()
            });
        }
    }
}

fn size_class(len: usize, limit: u64) -> &'static str {
    let (l, n) = (limit as i128, len as i128);
    if n == l - 1 {
        "len:limit-1"
    } else if n == l {
        "len:limit"
    } else if n == l + 1 {
        "len:limit+1"
    } else if n < l {
        "len:below"
    } else if n >= 10 * l && l > 0 {
        "len:10x+"
    } else {
        "len:above"
    }
}

async fn run_case(c: &Case) -> CaseOut {
    match c.ext.as_str() {
        "multipart" => return run_multipart(c).await,
        "field_bytes" => return run_field_bytes(c).await,
        "body_tbl" => return run_body_tbl(c).await,
        _ => {}
    }
    let body = gen_body(&c.body);
    let chunks = wire_chunks(c, &body);
    let wire_len: usize = chunks.iter().map(|x| x.len()).sum();
    let (ws, tail) = wire_view(&chunks, &c.enc).await;
    let (out, pulls) = run_extractor(c, &chunks).await;

    let default = match c.ext.as_str() {
        "bytes" | "string" => PAYLOAD_DEFAULT,
        "json" => JSON_DEFAULT,
        "form" => FORM_DEFAULT,
        _ => 0,
    };
    let limit = c.limit.unwrap_or(default);
    let damaged = c.corrupt.is_some() || c.truncate.is_some();

    // ------------------------------------------------------------------ oracle (property statement)
    let mut why = String::new();
    let mut fail = |m: String| {
        if why.is_empty() {
            why = m;
        }
    };
    let uses_cl = c.ext != "payload_tbl";
    let cl_num: Option<u128> = c.cl.as_ref().and_then(|s| s.parse::<usize>().ok()).map(|x| x as u128);
    let cl_bad = c.cl.is_some() && cl_num.is_none();
    let parse_valid = match (c.ext.as_str(), c.body.kind.as_str()) {
        ("string", "badutf8") => c.body.len == 0,
        ("string", "rand") => std::str::from_utf8(&body).is_ok(),
        // serde_json's own verdict on the whole body (external library, not the extractor)
        ("json", _) => serde_json::from_slice::<String>(&body).is_ok(),
        ("form", k) => k == "form",
        _ => true,
    };
    match &out {
        Out::Ok(b) => {
            if b.len() as u64 > limit {
                fail(format!("accepted {} bytes with limit {}", b.len(), limit));
            }
            if !damaged && *b != body {
                fail(format!("accepted body differs from the decoded body ({} vs {} bytes)", b.len(), body.len()));
            }
        }
        Out::Other(s) => fail(format!("unexpected error: {s}")),
        _ => {}
    }
    if uses_cl && cl_num.map_or(false, |n| n > limit as u128) {
        // declared length above the limit: overflow before reading
        if !out.is_overflow() && !(c.ext != "form" && !c.ctype_ok) && !(c.ext == "form" && !c.ctype_ok) {
            fail(format!("declared Content-Length {} > limit {} but outcome {:?}", cl_num.unwrap(), limit, out.v().show()));
        }
        if pulls != 0 {
            fail(format!("declared Content-Length above the limit but the stream was polled {pulls} times"));
        }
    } else if !damaged && c.ctype_ok && !(cl_bad && c.ext != "json") {
        if body.len() as u64 > limit {
            if !out.is_overflow() {
                fail(format!("decoded body of {} bytes with limit {}: outcome {}", body.len(), limit, out.v().show()));
            }
        } else if parse_valid {
            if !matches!(out, Out::Ok(_)) {
                fail(format!("decoded body of {} bytes within limit {} rejected: {}", body.len(), limit, out.v().show()));
            }
        } else if out != Out::Parse {
            fail(format!("unparsable body within the limit: outcome {}", out.v().show()));
        }
    }
    if cl_bad && c.ctype_ok && c.ext != "json" && out != Out::UnknownLength {
        fail(format!("unparsable Content-Length: outcome {}", out.v().show()));
    }
    // never reads past the wire chunk whose decoded output crosses the limit
    let mut cum: u128 = 0;
    let mut crossing: Option<usize> = None;
    let mut max_ratio = 0usize;
    for (i, w) in ws.iter().enumerate() {
        if let Wi::Out(d) = w {
            cum += d.len() as u128;
            if !chunks[i].is_empty() {
                max_ratio = max_ratio.max(d.len() / chunks[i].len());
            }
            if cum > limit as u128 && crossing.is_none() {
                crossing = Some(i + 1);
            }
        }
    }
    if let Some(k) = crossing {
        if pulls > k {
            fail(format!("stream polled {pulls} times although the decoded data exceeded the limit at wire chunk {k}"));
        }
    }

    // ------------------------------------------------------------------ model case
    // the external parsers' verdict on what the decoder delivers in total (= the body unless the
    // wire was damaged)
    let mut delivered: Vec<u8> = vec![];
    for w in &ws {
        if let Wi::Out(d) = w {
            delivered.extend_from_slice(d);
        }
    }
    if let Tail::Data(d) = &tail {
        delivered.extend_from_slice(d);
    }
    let modelled = body.len() <= MODEL_MAX;
    let coq_case = if !modelled {
        None
    } else {
        Some(match c.ext.as_str() {
            "bytes" => format!("CBytes {} {} {}", coq_optn(c.limit), coq_cl(&c.cl), coq_wire(&ws, &tail)),
            "string" => format!("CString {} {} {} {}", coq_optn(c.limit), coq_cl(&c.cl), coq_wire(&ws, &tail), coq_bool(std::str::from_utf8(&delivered).is_ok())),
            "json" => format!(
                "CJson {} {} {} {} {}",
                coq_optn(c.limit),
                coq_bool(c.ctype_ok),
                coq_cl(&c.cl),
                coq_wire(&ws, &tail),
                coq_bool(serde_json::from_slice::<String>(&delivered).is_ok())
            ),
            "form" => format!(
                "CForm {} {} {} {} {}",
                coq_optn(c.limit),
                coq_bool(c.ctype_ok),
                coq_cl(&c.cl),
                coq_wire(&ws, &tail),
                coq_bool(std::str::from_utf8(&delivered).is_ok())
            ),
            _ => format!("CPayloadTBL {} {}", limit, coq_wire(&ws, &tail)),
        })
    };
    let expect = V::T("r", vec![out.v(), V::us(pulls)]);
    let show = format!("{} pulls={}", out.v().show(), pulls);
    let precheck = uses_cl && c.cl.is_some() && pulls == 0;
    let mut tags = vec![
        format!("ext:{}", c.ext),
        format!("enc:{}", if c.enc.is_empty() { "identity" } else { &c.enc }),
        format!("limit:{}", match c.limit { None => "default".to_string(), Some(l) if l <= 1 || l == 4096 => l.to_string(), _ => "other".into() }),
        size_class(body.len(), limit).to_string(),
        format!("cl:{}", match (&c.cl, cl_num) { (None, _) => "absent", (Some(_), None) => "bad", (Some(_), Some(n)) if n == wire_len as u128 => "true", (Some(_), Some(n)) if n < wire_len as u128 => "lying-small", _ => "lying-large" }),
        format!("chunks:{}", match chunks.len() { 0 => "0", 1 => "1", 2..=8 => "2-8", _ => "9+" }),
        format!("outcome:{}", match &out { Out::Ok(_) => "ok", o if o.is_overflow() => "overflow", Out::Parse => "parse", Out::StreamErr => "stream-error", _ => "other-error" }),
        format!("expansion:{}", match max_ratio { 0..=1 => "<=1", 2..=9 => "2-9", 10..=99 => "10-99", _ => "100+" }),
    ];
    if damaged {
        tags.push("malformed:wire".into());
    }
    if !c.ctype_ok || cl_bad {
        tags.push("malformed:header".into());
    }
    if c.pend {
        tags.push("sched:pending".into());
    }
    if !modelled {
        tags.push("model:skipped-large".into());
    }
    CaseOut {
        coq_case,
        expect: if modelled { Some(expect.coq()) } else { None },
        sig: format!("{}|{}", c.ext, show),
        impl_show: show,
        oracle_ok: why.is_empty(),
        oracle_why: why,
        known_class: String::new(),
        nontrivial: !precheck && (chunks.len() >= 2 || (c.enc != "identity" && !c.enc.is_empty())),
        tags,
        ..Default::default()
    }
}

async fn run_body_tbl(c: &Case) -> CaseOut {
    let body = gen_body(&c.body);
    let chunks = if body.is_empty() && c.cuts.is_empty() { vec![] } else { cut(&body, &c.cuts) };
    let limit = c.limit.unwrap_or(0);
    let size = parse_size(&c.size);
    let (s, pulls) = count_stream(&chunks, c.pend);
    let out = match body::to_bytes_limited(TestBody { size, s }, limit as usize).await {
        Ok(Ok(b)) => Out::Ok(b.to_vec()),
        Ok(Err(_)) => Out::StreamErr,
        Err(_) => Out::Overflow,
    };
    let pulls = pulls.get();
    let mut why = String::new();
    match (&out, size) {
        (Out::Ok(b), _) if b.len() as u64 > limit => why = format!("collected {} bytes with limit {}", b.len(), limit),
        // a body that declares itself empty is not read at all
        (Out::Ok(b), BodySize::None | BodySize::Sized(0)) => {
            if !b.is_empty() || pulls != 0 {
                why = "body of declared size none/0 was read".into();
            }
        }
        (Out::Ok(b), _) if *b != body => why = "collected bytes differ from the body".into(),
        (Out::Ok(_), _) => {}
        (Out::Overflow, BodySize::Sized(n)) if n > limit => {
            if pulls != 0 {
                why = format!("declared size {n} > limit {limit} but the body was polled {pulls} times");
            }
        }
        (Out::Overflow, _) => {
            if body.len() as u64 <= limit {
                why = format!("body of {} bytes within limit {} refused", body.len(), limit);
            }
        }
        (o, _) => why = format!("unexpected outcome {}", o.v().show()),
    }
    if !matches!(size, BodySize::None | BodySize::Sized(0)) && !matches!(size, BodySize::Sized(n) if n > limit) {
        if body.len() as u64 > limit && out != Out::Overflow && why.is_empty() {
            why = format!("body of {} bytes with limit {}: {}", body.len(), limit, out.v().show());
        }
        let mut cum = 0u64;
        for (i, ch) in chunks.iter().enumerate() {
            cum += ch.len() as u64;
            if cum > limit {
                if pulls > i + 1 && why.is_empty() {
                    why = format!("polled {pulls} times, limit crossed at chunk {}", i + 1);
                }
                break;
            }
        }
    }
    let size_term = match size {
        BodySize::None => "SzNone".to_string(),
        BodySize::Sized(n) => format!("(SzSized {n})"),
        BodySize::Stream => "SzStream".to_string(),
    };
    let expect = V::T("r", vec![out.v(), V::us(pulls)]);
    let show = format!("{} pulls={}", out.v().show(), pulls);
    CaseOut {
        coq_case: Some(format!("CBodyTBL {} {} {}", size_term, limit, coq_list(&chunks, |x| coq_chunk(x)))),
        expect: Some(expect.coq()),
        sig: format!("body_tbl|{}|{}", c.size, show),
        impl_show: show,
        oracle_ok: why.is_empty(),
        oracle_why: why,
        nontrivial: chunks.len() >= 2 && pulls > 0,
        tags: vec![
            "ext:body_tbl".into(),
            format!("size:{}", c.size.split(':').next().unwrap_or("stream")),
            size_class(body.len(), limit).to_string(),
            format!("chunks:{}", match chunks.len() { 0 => "0", 1 => "1", 2..=8 => "2-8", _ => "9+" }),
            format!("outcome:{}", match &out { Out::Ok(_) => "ok", Out::Overflow => "overflow", _ => "other-error" }),
        ],
        ..Default::default()
    }
}

async fn run_field_bytes(c: &Case) -> CaseOut {
    // two fields: f0 (the one collected with Field::bytes(limit)) and f1 = "zz" (must stay readable)
    let fields = vec![MpField { name: 0, len: c.body.len }, MpField { name: 1, len: 2 }];
    let raw = multipart_body(&fields);
    let chunks = cut(&raw, &c.cuts);
    let limit = c.limit.unwrap_or(0) as usize;
    let view = field_view(c, &chunks).await;
    let want0 = field_data(&fields[0], 0);
    let want1 = field_data(&fields[1], 1);

    let (req, _) = mp_request(c).to_http_parts();
    let (s, _) = count_stream(&chunks, c.pend);
    let mut mp = Multipart::new(req.headers(), s);
    let mut why = String::new();
    let mut out = Out::Other("no field".into());
    let mut next_ok = false;
    if let Ok(Some(mut f0)) = mp.try_next().await {
        out = match f0.bytes(limit).await {
            Ok(Ok(b)) => Out::Ok(b.to_vec()),
            Ok(Err(_)) => Out::StreamErr,
            Err(_) => Out::Overflow,
        };
        drop(f0);
        if let Ok(Some(mut f1)) = mp.try_next().await {
            if let Ok(Ok(b)) = f1.bytes(usize::MAX).await {
                next_ok = b.to_vec() == want1;
            }
        }
    }
    match &out {
        Out::Ok(b) => {
            if b.len() > limit {
                why = format!("Field::bytes({limit}) returned {} bytes", b.len());
            } else if *b != want0 {
                why = "Field::bytes returned other bytes than the field content".into();
            }
        }
        Out::Overflow => {
            if want0.len() <= limit {
                why = format!("field of {} bytes within limit {limit} refused", want0.len());
            }
        }
        o => why = format!("unexpected outcome {}", o.v().show()),
    }
    if want0.len() > limit && out != Out::Overflow && why.is_empty() {
        why = format!("field of {} bytes with limit {limit}: {}", want0.len(), out.v().show());
    }
    if !next_ok && why.is_empty() {
        why = "the following field was not readable after Field::bytes".into();
    }
    let (coq_case, nchunks) = match &view {
        Ok(v) if !v.is_empty() => (Some(format!("CFieldBytes {} {}", limit, coq_list(&v[0].1, |x| coq_chunk(x)))), v[0].1.len()),
        _ => (None, 0),
    };
    let expect = V::T("r", vec![out.v()]);
    let show = out.v().show();
    CaseOut {
        expect: coq_case.as_ref().map(|_| expect.coq()),
        coq_case,
        sig: format!("field_bytes|{}|{}", show, nchunks),
        impl_show: show,
        oracle_ok: why.is_empty(),
        oracle_why: why,
        nontrivial: nchunks >= 2,
        tags: vec![
            "ext:field_bytes".into(),
            size_class(want0.len(), limit as u64).to_string(),
            format!("chunks:{}", match nchunks { 0 => "0", 1 => "1", 2..=8 => "2-8", _ => "9+" }),
            format!("outcome:{}", match &out { Out::Ok(_) => "ok", Out::Overflow => "overflow", _ => "other-error" }),
        ],
        ..Default::default()
    }
}

async fn run_multipart(c: &Case) -> CaseOut {
    let raw = multipart_body(&c.fields);
    let chunks = cut(&raw, &c.cuts);
    let total = c.limit.unwrap_or(MP_TOTAL_DEFAULT);
    let memory = c.memory.unwrap_or(MP_MEMORY_DEFAULT);
    let view = field_view(c, &chunks).await;

    let (req, _) = mp_request(c).to_http_parts();
    let (mut pl, _) = payload(&chunks, c.pend);
    let res = MultipartForm::<Upload>::from_request(&req, &mut pl).await;

    // expectation from the property statement: every occurrence counts towards the total and its
    // name's limit; what is kept in memory counts towards the memory limit
    let mut sum_total = 0u64;
    let mut sum_mem = 0u64;
    let mut per_name: std::collections::BTreeMap<u8, u64> = Default::default();
    let mut seen: Vec<u8> = vec![];
    let mut kept: Vec<(u8, Vec<u8>)> = vec![];
    for (i, f) in c.fields.iter().enumerate() {
        let (kind, _) = field_decl(f.name);
        let in_mem = match kind {
            "KSingle" => !seen.contains(&f.name),
            "KVec" => true,
            _ => false,
        };
        sum_total += f.len as u64;
        *per_name.entry(f.name).or_default() += f.len as u64;
        if in_mem {
            sum_mem += f.len as u64;
            seen.push(f.name);
            kept.push((f.name, field_data(f, i)));
        }
    }
    kept.sort_by_key(|k| k.0);
    let within = sum_total <= total && sum_mem <= memory && per_name.iter().all(|(n, s)| field_decl(*n).1.map_or(true, |l| *s <= l));

    let mut why = String::new();
    let (v, show_kind) = match res {
        Ok(form) => {
            let u = form.into_inner();
            let mut got: Vec<(u8, Vec<u8>)> = vec![];
            if let Some(b) = u.f0 {
                got.push((0, b.data.to_vec()));
            }
            if let Some(t) = u.f1 {
                got.push((1, t.0.into_bytes()));
            }
            for b in u.f2 {
                got.push((2, b.data.to_vec()));
            }
            for t in u.f3 {
                got.push((3, t.0.into_bytes()));
            }
            if !within {
                why = format!("form accepted although a limit is exceeded (total {sum_total}/{total}, memory {sum_mem}/{memory}, per name {per_name:?})");
            } else if got != kept {
                why = "accepted field data differs from what was sent".into();
            }
            (V::T("form_ok", vec![V::L(got.iter().map(|(n, d)| V::T("f", vec![V::n(*n), V::us(d.len()), V::n(hash(d))])).collect())]), "ok")
        }
        Err(e) => match e.as_error::<MultipartError>() {
            Some(MultipartError::Payload(PayloadError::Overflow)) => {
                if within {
                    why = format!("form within all limits refused (total {sum_total}/{total}, memory {sum_mem}/{memory})");
                }
                (V::t0("form_overflow"), "overflow")
            }
            _ => {
                why = format!("unexpected error {e}");
                (V::t0("form_other"), "other")
            }
        },
    };
    let coq_case = match &view {
        Ok(vw) if vw.len() == c.fields.len() => Some(format!(
            "CMultipart {} {} {}",
            coq_optn(c.limit),
            coq_optn(c.memory),
            coq_list(&vw.iter().zip(c.fields.iter()).collect::<Vec<_>>(), |(fv, f)| {
                let (kind, lim) = field_decl(f.name);
                format!("MF {} {} {} {}", f.name, kind, coq_optn(lim), coq_list(&fv.1, |x| coq_chunk(x)))
            })
        )),
        _ => None,
    };
    let show = v.show();
    CaseOut {
        expect: coq_case.as_ref().map(|_| v.coq()),
        coq_case,
        sig: format!("multipart|{}", show),
        impl_show: show,
        oracle_ok: why.is_empty(),
        oracle_why: why,
        nontrivial: c.fields.len() >= 2,
        tags: vec![
            "ext:multipart".into(),
            format!("fields:{}", match c.fields.len() { 0 => "0", 1 => "1", 2..=4 => "2-4", _ => "5+" }),
            format!("outcome:{}", show_kind),
            format!("total:{}", if sum_total == total { "at-limit" } else if sum_total == total + 1 { "limit+1" } else if sum_total > total { "above" } else { "below" }),
            format!("memory:{}", if sum_mem == memory { "at-limit" } else if sum_mem == memory + 1 { "limit+1" } else if sum_mem > memory { "above" } else { "below" }),
        ],
        ..Default::default()
    }
}

// -------------------------------------------------------------------------------------- generator

fn pick_len(rng: &mut Rng, limit: u64, allow_big: bool) -> usize {
    let l = limit as i64;
    let v = match rng.below(10) {
        0 | 1 => l - 1,
        2 | 3 | 4 => l,
        5 | 6 => l + 1,
        7 => {
            if allow_big {
                10 * l
            } else {
                l + 2
            }
        }
        8 => rng.below(limit.max(1) + 1) as i64,
        _ => l + rng.range(2, 40) as i64,
    };
    v.max(0) as usize
}

fn gen_cuts(rng: &mut Rng, len: usize) -> Vec<usize> {
    if len > 6000 {
        // byte-wise chunking of a large body would only slow the run down
        match rng.below(3) {
            0 => vec![],
            1 => (1..len).step_by(rng.range(1500, 5000) as usize).collect(),
            _ => {
                let k = rng.range(1, 12);
                let mut v: Vec<usize> = (0..k).map(|_| rng.range(1, len as u64 - 1) as usize).collect();
                v.sort();
                v.dedup();
                v
            }
        }
    } else if len > 600 && rng.chance(1, 2) {
        (1..len).step_by(rng.range(1, 300) as usize).collect()
    } else {
        random_cuts(rng, len)
    }
}

fn gen_case(rng: &mut Rng, thorough: bool) -> Case {
    let ext = *rng.pick(&["bytes", "bytes", "string", "json", "json", "form", "form", "payload_tbl", "body_tbl", "field_bytes", "multipart", "multipart"]);
    let mut c = Case { ext: ext.into(), ctype_ok: true, enc: "identity".into(), ..Default::default() };
    c.pend = rng.chance(1, 4);
    match ext {
        "multipart" => {
            let nf = rng.range(1, 6) as usize;
            let small = [0u64, 1, 5, 16, 17, 40, 100, 101, 150];
            let mut fields = vec![];
            for _ in 0..nf {
                let name = rng.below(6) as u8;
                let len = match rng.below(6) {
                    0 => 0,
                    1 => 16,
                    2 => 17,
                    3 => 100,
                    4 => rng.range(1, 60),
                    _ => rng.range(1, 120),
                } as usize;
                fields.push(MpField { name, len });
            }
            let sum: u64 = fields.iter().map(|f| f.len as u64).sum();
            c.limit = match rng.below(6) {
                0 => None,
                1 => Some(sum),
                2 => Some(sum.saturating_sub(1)),
                3 => Some(sum + 1),
                _ => Some(*rng.pick(&small)),
            };
            c.memory = match rng.below(5) {
                0 | 1 => None,
                2 => Some(sum / 2),
                _ => Some(*rng.pick(&small)),
            };
            c.fields = fields;
            c.cuts = mp_cuts(rng, &c.fields);
            return c;
        }
        "field_bytes" => {
            let limit = *rng.pick(&[0u64, 1, 7, 64, 300]);
            c.limit = Some(limit);
            c.body = BodySpec { kind: "runs".into(), len: pick_len(rng, limit, true), seed: rng.next() % 1000 };
            c.cuts = mp_cuts(rng, &[MpField { name: 0, len: c.body.len }, MpField { name: 1, len: 2 }]);
            return c;
        }
        "body_tbl" => {
            let limit = *rng.pick(&[0u64, 1, 7, 64, 4096]);
            c.limit = Some(limit);
            let len = pick_len(rng, limit, true);
            c.body = BodySpec { kind: "runs".into(), len, seed: rng.next() % 1000 };
            c.size = match rng.below(8) {
                0 => "none".into(),
                1 | 2 | 3 => "stream".into(),
                4 => format!("sized:{}", len),
                5 => "sized:0".into(),
                6 => format!("sized:{}", limit + 1),
                _ => format!("sized:{}", len / 2),
            };
            c.cuts = gen_cuts(rng, len);
            return c;
        }
        _ => {}
    }
    let default = match ext {
        "bytes" | "string" => PAYLOAD_DEFAULT,
        "json" => JSON_DEFAULT,
        "form" => FORM_DEFAULT,
        _ => 4096,
    };
    // default-limit cases with full-size bodies are expensive for the model: keep them rare
    let big_ok = thorough || rng.chance(1, 12);
    c.limit = match rng.below(10) {
        0 => Some(0),
        1 | 2 => Some(1),
        3 | 4 | 5 => Some(4096),
        6 => {
            if ext == "payload_tbl" {
                Some(4096)
            } else {
                None
            }
        }
        7 => Some(rng.range(2, 64)),
        _ => Some(*rng.pick(&[7u64, 100, 1000])),
    };
    let limit = c.limit.unwrap_or(default);
    let mut len = pick_len(rng, limit, limit <= 4096);
    if c.limit.is_none() && (!big_ok || default > 300_000) {
        // without a full-size body the default limit is exercised through Content-Length only
        len = rng.range(0, 200) as usize;
    }
    let kind = match ext {
        "json" => {
            if rng.chance(1, 10) {
                "badjson"
            } else {
                "json"
            }
        }
        "form" => "form",
        "string" => {
            if rng.chance(1, 8) {
                "badutf8"
            } else {
                "runs"
            }
        }
        _ => {
            if len <= 3000 && rng.chance(1, 5) {
                "rand"
            } else {
                "runs"
            }
        }
    };
    c.body = BodySpec { kind: kind.into(), len, seed: rng.next() % 1000 };
    c.enc = if rng.chance(1, 2) { "identity".into() } else { rng.pick(&["gzip", "deflate", "br", "zstd"]).to_string() };
    let body = gen_body(&c.body);
    let wire_len = encode(&c.enc, &body).len();
    c.cuts = gen_cuts(rng, wire_len);
    if ext != "payload_tbl" {
        c.cl = match rng.below(10) {
            0 | 1 | 2 | 3 => None,
            4 | 5 | 6 => Some(wire_len.to_string()),
            7 => Some((wire_len / 2).to_string()), // lying: too small
            8 => Some(match rng.below(3) { 0 => limit + 1, 1 => default + 1, _ => limit }.to_string()), // lying: around the limits
            _ => Some("0".into()),
        };
    }
    // ~20 % malformed: header or wire damage
    if rng.chance(1, 5) {
        match rng.below(4) {
            0 if ext != "payload_tbl" => c.cl = Some(rng.pick(&["abc", "-1", "18446744073709551616", "1e3"]).to_string()),
            1 if ext == "json" || ext == "form" => c.ctype_ok = false,
            // json/form results are re-rendered from the parsed value, which is exact only for the
            // generated (undamaged) bodies: wire damage is applied to the raw-byte extractors
            2 if c.enc != "identity" && ext != "json" && ext != "form" => c.corrupt = Some((rng.below(wire_len.max(1) as u64) as usize, rng.below(255) as u8)),
            _ if c.enc != "identity" && wire_len > 1 && ext != "json" && ext != "form" => c.truncate = Some(rng.range(1, wire_len as u64 - 1) as usize),
            _ => {}
        }
    }
    c
}

fn main() {
    let args = parse_args();
    let mut em = Emitter::default();
    for (id, j) in args.fixed_inputs() {
        let c: Case = serde_json::from_value(j).expect("case");
        emit_case(&mut em, id, c);
    }
    if args.case.is_none() {
        let mut rng = Rng::new(args.seed);
        let n = args.n.unwrap_or(if args.thorough() { 8000 } else { 1200 });
        for i in 0..n {
            let mut r = rng.fork();
            let c = gen_case(&mut r, args.thorough());
            if std::env::var_os("C12_TRACE").is_some() {
                eprintln!("gen-{i} {}", serde_json::to_string(&c).unwrap());
            }
            emit_case(&mut em, format!("gen-{i}"), c);
        }
    }
    em.finish();
}
