//! C13 — content coding is lossless, correctly labelled and correctly negotiated.
//!
//! kinds of cases
//!   resp : a handler response (status, headers, body type, chunking) through the real `Compress`
//!          middleware; the body of the answer is polled chunk by chunk
//!   wire : the same handler + Compress behind a real HTTP/1 connection (scripted socket); the oracle
//!          parses the raw response bytes (framing vs. Content-Length, decoded body); no model
//!   h2   : the same behind a real HTTP/2 connection (h2 client over an in-memory pipe); oracle on the
//!          response head and the DATA received; no model
//!   dec  : a request body through the real `actix_http::encoding::Decoder`
//!   neg  : `AcceptEncoding::negotiate` / `ranked` alone (volume for the negotiation rules)
//!   law  : the codec laws assumed by the Coq theorems, TESTED on flate2 / brotli / zstd directly
//!          (a test, not a proof; no model evaluation)
//!
//! Oracle (independent of the model): decode what was received with the codec library named by the
//! Content-Encoding label and compare with the handler's body; label supported and permitted by the
//! raw Accept-Encoding header under RFC 7231 §5.3.4 (own parser); pass-through cases untouched;
//! Vary / body size rules; 406 only when identity is excluded; the stream ends and stays ended.
//! The model gets, per case, what a twin run of the codec library returned for every
//! write+take / finish (and feed / feed_eof), as tokens [len; checksum].

use std::{
    cell::RefCell,
    collections::VecDeque,
    io::{Read as _, Write as _},
    pin::Pin,
    rc::Rc,
    task::{Context, Poll},
};

use actix_http::{
    body::{BodySize, MessageBody},
    encoding::Decoder,
    error::PayloadError,
    header::ContentEncoding,
};
use actix_web::{
    http::{
        header::{self, AcceptEncoding, Encoding, Preference},
        StatusCode,
    },
    middleware::Compress,
    test::{self, TestRequest},
    web, App, HttpMessage as _, HttpResponse,
};
use bytes::Bytes;
use futures_core::Stream;
use futures_util::{future::poll_fn, StreamExt as _};
use serde::{Deserialize, Serialize};
use vh::*;

// ------------------------------------------------------------------------------------------ case

#[derive(Serialize, Deserialize, Clone, Debug, Default)]
struct BodySpec {
    /// runs | rand
    kind: String,
    len: usize,
    seed: u64,
}

#[derive(Serialize, Deserialize, Clone, Debug, Default)]
struct Case {
    /// resp | dec | neg | law
    kind: String,
    /// Accept-Encoding header (None: absent)
    #[serde(default)]
    ae: Option<String>,
    /// response Content-Type ("" = none)
    #[serde(default)]
    ctype: String,
    #[serde(default)]
    status: u16,
    /// Content-Encoding set by the handler
    #[serde(default)]
    ce: Option<String>,
    /// Vary set by the handler
    #[serde(default)]
    vary: Option<String>,
    #[serde(default)]
    body: BodySpec,
    #[serde(default)]
    cuts: Vec<usize>,
    /// structural segmentation: cut every k bytes (used instead of `cuts` when present)
    #[serde(default)]
    every: Option<usize>,
    /// bytes | stream | sized | none
    #[serde(default)]
    body_type: String,
    /// the body / wire stream answers Pending (with a wake) before every item
    #[serde(default)]
    pend: bool,
    /// dec, law: coding (identity | gzip | deflate | br | zstd | unknown)
    #[serde(default)]
    enc: String,
    /// dec: wire damage
    #[serde(default)]
    corrupt: Option<(usize, u8)>,
    #[serde(default)]
    truncate: Option<usize>,
    /// law: seed of the operation sequence
    #[serde(default)]
    ops_seed: u64,
    /// resp, wire: the handler announces the length of its body up front
    /// (`HttpResponseBuilder::no_chunking(len)`: Content-Length header + NO_CHUNKING flag)
    #[serde(default)]
    no_chunking: bool,
    /// wire: how the request is sent: "" (plain GET, connection: close) | "upgrade" (GET with
    /// Connection: upgrade / Upgrade: websocket) | "connect" (CONNECT): the two latter put the h1
    /// codec into STREAM mode
    #[serde(default)]
    req_mode: String,
    /// resp: what the handler's stream body does when it is polled AFTER it returned None:
    /// "" (answers None again) | "pend" (answers Pending forever, waking itself) | "panic" (as
    /// `futures::stream::unfold` does).  Every such poll is counted.
    #[serde(default)]
    after_end: String,
    /// dec: the values of the request's Content-Encoding fields, in order (chars are Latin-1 bytes);
    /// None = one field with the canonical token of `enc`
    #[serde(default)]
    ce_values: Option<Vec<String>>,
}

fn runs(len: usize, seed: u64) -> Vec<u8> {
    let mut r = Rng::new(seed);
    let mut out = Vec::with_capacity(len);
    let mut i = 0u64;
    while out.len() < len {
        let left = len - out.len();
        let run = (r.range(1, (len as u64 / 7).max(1)) as usize).min(left);
        out.extend(std::iter::repeat(b'a' + (i % 26) as u8).take(run));
        i += 1 + r.below(3);
    }
    out
}
/// the segments of `data` a case asks for
fn segments(c: &Case, data: &[u8]) -> Vec<Vec<u8>> {
    match c.every {
        Some(k) if k > 0 => cut(data, &(k..data.len()).step_by(k).collect::<Vec<_>>()),
        _ => cut(data, &c.cuts),
    }
}
/// segmentation for a body / wire of `len` bytes: byte-wise and other fine segmentations only for
/// small inputs (<= 4 KiB); larger inputs get at most ~256 segments, described structurally
fn gen_segmentation(rng: &mut Rng, len: usize) -> (Vec<usize>, Option<usize>) {
    if len <= 4096 {
        if len > 300 && rng.chance(1, 2) {
            (vec![], Some(rng.range(1, 1200) as usize))
        } else {
            (random_cuts(rng, len), None)
        }
    } else {
        match rng.below(3) {
            0 => (vec![], None),
            1 => {
                let lo = (len / 256).max(64) as u64;
                (vec![], Some(rng.range(lo, (len as u64 / 3).max(lo)) as usize))
            }
            _ => ((0..rng.range(1, 10)).map(|_| rng.range(1, len as u64 - 1) as usize).collect::<std::collections::BTreeSet<_>>().into_iter().collect(), None),
        }
    }
}
fn gen_body(b: &BodySpec) -> Vec<u8> {
    match b.kind.as_str() {
        "rand" => Rng::new(b.seed).bytes(b.len),
        _ => runs(b.len, b.seed),
    }
}
fn hash(b: &[u8]) -> u128 {
    let mut h: u128 = 0;
    for (i, &x) in b.iter().enumerate() {
        h += (i as u128 + 1) * (x as u128 + 1);
    }
    h
}
/// token of a byte string: [] if empty, [len; checksum] otherwise
fn tok(b: &[u8]) -> Vec<u128> {
    if b.is_empty() {
        vec![]
    } else {
        vec![b.len() as u128, hash(b)]
    }
}
fn v_tok(b: &[u8]) -> V {
    V::L(tok(b).into_iter().map(V::N).collect())
}
fn coq_tok(b: &[u8]) -> String {
    format!("[{}]", tok(b).iter().map(|n| n.to_string()).collect::<Vec<_>>().join("; "))
}
fn coq_bchunk(b: &[u8]) -> String {
    format!("BC {} {}", b.len().min(4096), coq_tok(b))
}

// ---------------------------------------------------------------------- codec libraries, directly

enum TwinEnc {
    Gz(flate2::write::GzEncoder<Vec<u8>>),
    Zl(flate2::write::ZlibEncoder<Vec<u8>>),
    Br(Box<brotli::CompressorWriter<Vec<u8>>>),
    Zs(zstd::stream::write::Encoder<'static, Vec<u8>>),
}
impl TwinEnc {
    /// same parameters as `ContentEncoder::select`
    fn new(enc: &str) -> Option<TwinEnc> {
        Some(match enc {
            "gzip" => TwinEnc::Gz(flate2::write::GzEncoder::new(Vec::new(), flate2::Compression::fast())),
            "deflate" => TwinEnc::Zl(flate2::write::ZlibEncoder::new(Vec::new(), flate2::Compression::fast())),
            "br" => TwinEnc::Br(Box::new(brotli::CompressorWriter::new(Vec::new(), 32 * 1024, 3, 22))),
            "zstd" => TwinEnc::Zs(zstd::stream::write::Encoder::new(Vec::new(), 3).unwrap()),
            _ => return None,
        })
    }
    fn write(&mut self, d: &[u8]) {
        match self {
            TwinEnc::Gz(e) => e.write_all(d).unwrap(),
            TwinEnc::Zl(e) => e.write_all(d).unwrap(),
            TwinEnc::Br(e) => e.write_all(d).unwrap(),
            TwinEnc::Zs(e) => e.write_all(d).unwrap(),
        }
    }
    fn take(&mut self) -> Vec<u8> {
        match self {
            TwinEnc::Gz(e) => std::mem::take(e.get_mut()),
            TwinEnc::Zl(e) => std::mem::take(e.get_mut()),
            TwinEnc::Br(e) => std::mem::take(e.get_mut()),
            TwinEnc::Zs(e) => std::mem::take(e.get_mut()),
        }
    }
    fn finish(self) -> Vec<u8> {
        match self {
            TwinEnc::Gz(e) => e.finish().unwrap(),
            TwinEnc::Zl(e) => e.finish().unwrap(),
            TwinEnc::Br(mut e) => {
                e.flush().unwrap();
                e.into_inner()
            }
            TwinEnc::Zs(e) => e.finish().unwrap(),
        }
    }
}

/// whole-body decode with the library's reader
fn whole_decode(enc: &str, data: &[u8]) -> Result<Vec<u8>, String> {
    let mut out = vec![];
    match enc {
        "gzip" => flate2::read::GzDecoder::new(data).read_to_end(&mut out).map(|_| ()).map_err(|e| e.to_string())?,
        "deflate" => flate2::read::ZlibDecoder::new(data).read_to_end(&mut out).map(|_| ()).map_err(|e| e.to_string())?,
        "br" => brotli::Decompressor::new(data, 4096).read_to_end(&mut out).map(|_| ()).map_err(|e| e.to_string())?,
        "zstd" => zstd::stream::read::Decoder::new(data).map_err(|e| e.to_string())?.read_to_end(&mut out).map(|_| ()).map_err(|e| e.to_string())?,
        _ => out = data.to_vec(),
    }
    Ok(out)
}
fn whole_encode(enc: &str, data: &[u8]) -> Vec<u8> {
    match TwinEnc::new(enc) {
        Some(mut e) => {
            e.write(data);
            e.finish()
        }
        None => data.to_vec(),
    }
}

enum TwinDec {
    Gz(flate2::write::GzDecoder<Vec<u8>>),
    Zl(flate2::write::ZlibDecoder<Vec<u8>>),
    Br(Box<brotli::DecompressorWriter<Vec<u8>>>),
    Zs(zstd::stream::write::Decoder<'static, Vec<u8>>),
}
impl TwinDec {
    /// same parameters as `Decoder::new`
    fn new(enc: &str) -> Option<TwinDec> {
        Some(match enc {
            "gzip" => TwinDec::Gz(flate2::write::GzDecoder::new(Vec::new())),
            "deflate" => TwinDec::Zl(flate2::write::ZlibDecoder::new(Vec::new())),
            "br" => TwinDec::Br(Box::new(brotli::DecompressorWriter::new(Vec::new(), 8_096))),
            "zstd" => TwinDec::Zs(zstd::stream::write::Decoder::new(Vec::new()).unwrap()),
            _ => return None,
        })
    }
    /// `ContentDecoder::feed_data`: write_all, flush, take
    fn feed(&mut self, d: &[u8]) -> Result<Vec<u8>, ()> {
        match self {
            TwinDec::Gz(e) => {
                e.write_all(d).map_err(|_| ())?;
                e.flush().map_err(|_| ())?;
                Ok(std::mem::take(e.get_mut()))
            }
            TwinDec::Zl(e) => {
                e.write_all(d).map_err(|_| ())?;
                e.flush().map_err(|_| ())?;
                Ok(std::mem::take(e.get_mut()))
            }
            TwinDec::Br(e) => {
                e.write_all(d).map_err(|_| ())?;
                e.flush().map_err(|_| ())?;
                Ok(std::mem::take(e.get_mut()))
            }
            TwinDec::Zs(e) => {
                e.write_all(d).map_err(|_| ())?;
                e.flush().map_err(|_| ())?;
                Ok(std::mem::take(e.get_mut()))
            }
        }
    }
    /// `ContentDecoder::feed_eof`
    fn eof(&mut self) -> Result<Vec<u8>, ()> {
        match self {
            TwinDec::Gz(e) => {
                e.try_finish().map_err(|_| ())?;
                Ok(std::mem::take(e.get_mut()))
            }
            TwinDec::Zl(e) => {
                e.try_finish().map_err(|_| ())?;
                Ok(std::mem::take(e.get_mut()))
            }
            TwinDec::Br(e) => {
                e.flush().map_err(|_| ())?;
                Ok(std::mem::take(e.get_mut()))
            }
            TwinDec::Zs(e) => {
                e.flush().map_err(|_| ())?;
                Ok(std::mem::take(e.get_mut()))
            }
        }
    }
}

// ------------------------------------------------------------------------------ handler body types

struct ChunkBody {
    size: BodySize,
    items: VecDeque<Bytes>,
    pend: bool,
    parked: bool,
    /// polls after the end (the encoder may poll a finished body again)
    polls_after_end: Rc<RefCell<usize>>,
    ended: bool,
    /// "" | "pend" | "panic": see Case::after_end
    after_end: String,
}
impl MessageBody for ChunkBody {
    type Error = std::io::Error;
    fn size(&self) -> BodySize {
        self.size
    }
    fn poll_next(mut self: Pin<&mut Self>, cx: &mut Context<'_>) -> Poll<Option<Result<Bytes, Self::Error>>> {
        if self.ended {
            *self.polls_after_end.borrow_mut() += 1;
            match self.after_end.as_str() {
                "pend" => {
                    cx.waker().wake_by_ref();
                    return Poll::Pending;
                }
                "panic" => panic!("the handler's body stream was polled after it had returned None"),
                _ => return Poll::Ready(None),
            }
        }
        if self.pend && !self.parked {
            self.parked = true;
            cx.waker().wake_by_ref();
            return Poll::Pending;
        }
        self.parked = false;
        match self.items.pop_front() {
            Some(b) => Poll::Ready(Some(Ok(b))),
            None => {
                self.ended = true;
                Poll::Ready(None)
            }
        }
    }
}

struct WireStream {
    items: VecDeque<Bytes>,
    pend: bool,
    parked: bool,
}
impl Stream for WireStream {
    type Item = Result<Bytes, PayloadError>;
    fn poll_next(mut self: Pin<&mut Self>, cx: &mut Context<'_>) -> Poll<Option<Self::Item>> {
        if self.pend && !self.parked {
            self.parked = true;
            cx.waker().wake_by_ref();
            return Poll::Pending;
        }
        self.parked = false;
        Poll::Ready(self.items.pop_front().map(Ok))
    }
}

// --------------------------------------------------------------------- Accept-Encoding, own parser

/// (name lower-case, q in thousandths); None: not a well-formed list
fn parse_ae(raw: &str) -> Option<Vec<(String, u32)>> {
    let mut out = vec![];
    for part in raw.split(',') {
        let part = part.trim();
        if part.is_empty() {
            continue;
        }
        let mut it = part.split(';');
        let name = it.next()?.trim().to_ascii_lowercase();
        if name.is_empty() || name.contains(' ') {
            return None;
        }
        let mut q = 1000u32;
        for p in it {
            let p = p.trim();
            let (k, v) = p.split_once('=')?;
            if !k.trim().eq_ignore_ascii_case("q") {
                return None;
            }
            let v = v.trim();
            let f: f64 = v.parse().ok()?;
            if !(0.0..=1.0).contains(&f) || v.len() > 5 || !v.starts_with(|c| c == '0' || c == '1') {
                return None;
            }
            q = (f * 1000.0).round() as u32;
        }
        out.push((name, q));
    }
    Some(out)
}
/// RFC 7231 §5.3.4 on a parsed, non-absent header
fn permitted(entries: &[(String, u32)], coding: &str) -> bool {
    if entries.is_empty() {
        return coding == "identity";
    }
    let best = |name: &str| entries.iter().filter(|e| e.0 == name).map(|e| e.1).max();
    match best(coding) {
        Some(q) => q > 0,
        None => match best("*") {
            Some(q) => q > 0,
            None => coding == "identity",
        },
    }
}
fn f4_class(entries: &[(String, u32)]) -> bool {
    let best = |name: &str| entries.iter().filter(|e| e.0 == name).map(|e| e.1).max();
    best("identity") == Some(0) && best("*").map_or(false, |q| q > 0)
}

fn supported() -> Vec<Encoding> {
    vec![Encoding::identity(), Encoding::brotli(), Encoding::gzip(), Encoding::deflate(), Encoding::zstd()]
}
fn coding_term(e: &Encoding, unknown: &mut Vec<String>) -> String {
    match e {
        Encoding::Known(ContentEncoding::Identity) => "Identity".into(),
        Encoding::Known(ContentEncoding::Brotli) => "Brotli".into(),
        Encoding::Known(ContentEncoding::Deflate) => "Deflate".into(),
        Encoding::Known(ContentEncoding::Gzip) => "Gzip".into(),
        Encoding::Known(ContentEncoding::Zstd) => "Zstd".into(),
        Encoding::Known(_) => "(Unknown 999)".into(),
        Encoding::Unknown(s) => {
            let s = s.to_ascii_lowercase();
            let i = match unknown.iter().position(|u| *u == s) {
                Some(i) => i,
                None => {
                    unknown.push(s);
                    unknown.len() - 1
                }
            };
            format!("(Unknown {i})")
        }
    }
}
fn coding_name(e: &Encoding) -> Vec<u8> {
    match e {
        Encoding::Known(c) => c.as_str().as_bytes().to_vec(),
        Encoding::Unknown(_) => vec![],
    }
}
/// the header as the real typed-header parser sees it, as a Gallina `option (list qitem)`
fn parsed_ae_term(raw: &Option<String>) -> (String, Option<AcceptEncoding>) {
    let Some(raw) = raw else { return ("None".into(), None) };
    let req = TestRequest::default().insert_header((header::ACCEPT_ENCODING, raw.as_str())).to_http_request();
    match req.get_header::<AcceptEncoding>() {
        None => ("None".into(), None),
        Some(ae) => {
            let mut unknown = vec![];
            let items: Vec<String> =
                ae.0.iter()
                    .map(|qi| {
                        let q = (qi.quality.to_string().parse::<f64>().unwrap() * 1000.0).round() as u32;
                        let p = match &qi.item {
                            Preference::Any => "PAny".to_string(),
                            Preference::Specific(e) => format!("PSpec {}", coding_term(e, &mut unknown)),
                        };
                        format!("({p}, {q})")
                    })
                    .collect();
            (format!("(Some [{}])", items.join("; ")), Some(ae))
        }
    }
}
fn compressible(ctype: &str) -> bool {
    // the documented rule of the middleware: images (except svg) and videos are not compressed
    let ct = ctype.to_ascii_lowercase();
    if ct.starts_with("image/") {
        ct.starts_with("image/svg+xml")
    } else {
        !ct.starts_with("video/")
    }
}

// -------------------------------------------------------------------------------------- resp case

fn body_chunks(c: &Case) -> (Vec<u8>, Vec<Vec<u8>>) {
    let body = if c.body_type == "none" { vec![] } else { gen_body(&c.body) };
    let chunks: Vec<Vec<u8>> = match c.body_type.as_str() {
        "none" => vec![],
        "bytes" => vec![body.clone()],
        _ => {
            if body.is_empty() && c.cuts.is_empty() && c.every.is_none() {
                vec![]
            } else {
                segments(c, &body)
            }
        }
    };
    (body, chunks)
}

/// what the handler of a resp / wire case answers
fn handler_response(c: &Case, body: Vec<u8>, chunks: Vec<Vec<u8>>, after: Rc<RefCell<usize>>) -> HttpResponse {
    let status = StatusCode::from_u16(c.status).unwrap_or(StatusCode::OK);
    let mut b = HttpResponse::build(status);
    if !c.ctype.is_empty() {
        b.insert_header((header::CONTENT_TYPE, c.ctype.as_str()));
    }
    if let Some(ce) = &c.ce {
        b.insert_header((header::CONTENT_ENCODING, ce.as_str()));
    }
    if let Some(v) = &c.vary {
        b.insert_header((header::VARY, v.as_str()));
    }
    if c.no_chunking {
        b.no_chunking(body.len() as u64);
    }
    match c.body_type.as_str() {
        "none" => b.body(actix_web::body::None::new()),
        "bytes" => b.body(Bytes::from(body)),
        t => b.body(ChunkBody {
            size: if t == "sized" { BodySize::Sized(body.len() as u64) } else { BodySize::Stream },
            items: chunks.into_iter().map(Bytes::from).collect(),
            pend: c.pend,
            parked: false,
            polls_after_end: after,
            ended: false,
            after_end: c.after_end.clone(),
        }),
    }
}

async fn run_resp(c: &Case) -> CaseOut {
    let (body, chunks) = body_chunks(c);
    let after_end = Rc::new(RefCell::new(0usize));
    let (c2, chunks2, body2, after2) = (c.clone(), chunks.clone(), body.clone(), after_end.clone());
    let app = test::init_service(App::new().wrap(Compress::default()).default_service(web::to(move || {
        let (c, chunks, body, after) = (c2.clone(), chunks2.clone(), body2.clone(), after2.clone());
        async move { handler_response(&c, body, chunks, after) }
    })))
    .await;
    let mut tr = TestRequest::get().uri("/");
    if let Some(ae) = &c.ae {
        tr = tr.insert_header((header::ACCEPT_ENCODING, ae.as_str()));
    }
    let res = test::call_service(&app, tr.to_request()).await;
    let r_status = res.status().as_u16();
    let r_ce: Option<Vec<u8>> = res.headers().get(header::CONTENT_ENCODING).map(|v| v.as_bytes().to_vec());
    let r_vary: Vec<Vec<u8>> = res.headers().get_all(header::VARY).map(|v| v.as_bytes().to_vec()).collect();
    let r_cl = res.headers().get(header::CONTENT_LENGTH).map(|v| v.as_bytes().to_vec());
    let r_size = res.response().body().size();
    let r_no_chunking = !res.response().head().chunked();
    let body_stream = res.into_body();
    actix_rt::pin!(body_stream);
    let mut got: Vec<Vec<u8>> = vec![];
    let mut err = false;
    let mut guard = 0;
    // a body that pends (waking itself) after its end would spin for ever if it is polled again:
    // the number of polls of the answer's body is bounded
    let polls = Rc::new(RefCell::new(0usize));
    let poll_limit = 40 * (chunks.len() + 8);
    let mut hang = false;
    loop {
        guard += 1;
        let p2 = polls.clone();
        let item = poll_fn(|cx| {
            *p2.borrow_mut() += 1;
            if *p2.borrow() > poll_limit {
                return Poll::Ready(Err(()));
            }
            body_stream.as_mut().poll_next(cx).map(Ok)
        })
        .await;
        match item {
            Err(()) => {
                hang = true;
                err = true;
                break;
            }
            Ok(Some(Ok(b))) => got.push(b.to_vec()),
            Ok(Some(Err(_))) => {
                err = true;
                break;
            }
            Ok(None) => break,
        }
        // Encoder emits at most one chunk per body chunk plus the finish chunk: more polls than
        // that without reaching the end is the implementation not terminating, not a harness limit
        if guard > chunks.len() + 8 {
            err = true;
            break;
        }
    }
    // polls of the handler's body after ITS end, up to the moment the consumer saw the answer's end
    let late_polls = *after_end.borrow();
    // polling the answer again after its end is the consumer's doing: only done with a body that
    // tolerates it
    let n_after = if c.after_end.is_empty() { 3 } else { 0 };
    let mut after: Vec<&'static str> = vec![];
    if !err {
        for _ in 0..n_after {
            after.push(match poll_fn(|cx| body_stream.as_mut().poll_next(cx)).await {
                None => "end",
                Some(Ok(_)) => "chunk",
                Some(Err(_)) => "err",
            });
        }
    }

    // ------------------------------------------------------------------------------ oracle
    let mut why = String::new();
    let mut fail = |m: String| {
        if why.is_empty() {
            why = m;
        }
    };
    let entries = c.ae.as_ref().map(|raw| parse_ae(raw));
    let mut known_class = String::new();
    if let Some(Some(e)) = &entries {
        if f4_class(e) {
            known_class = "F4".into();
        }
    }
    let concat: Vec<u8> = got.concat();
    let handler_ce = c.ce.clone();
    if hang {
        fail(format!("the body stream did not end within {poll_limit} polls (the handler's body was polled {late_polls} time(s) after its end)"));
    }
    if err {
        fail("the body stream returned an error / did not end".into());
    }
    if late_polls > 0 {
        fail(format!("the handler's body was polled {late_polls} time(s) after it had returned None, before the answer's stream reported its end"));
    }
    if after.iter().any(|a| *a != "end") {
        fail(format!("after the end of the stream further polls gave {after:?}"));
    }
    if r_status == 406 {
        // only when the header excludes identity
        match &entries {
            Some(Some(e)) if !permitted(e, "identity") => {}
            _ => fail("406 although identity is acceptable".into()),
        }
    } else {
        if r_status != c.status {
            fail(format!("status changed {} -> {}", c.status, r_status));
        }
        let untouched = handler_ce.is_some()
            || matches!(c.status, 101 | 204 | 206)
            || c.body_type == "none"
            || (c.body_type != "stream" && body.is_empty());
        let label = r_ce.as_ref().map(|v| String::from_utf8_lossy(v).to_string());
        if untouched {
            if label != handler_ce {
                fail(format!("pass-through case but Content-Encoding became {label:?}"));
            }
            if concat != body {
                fail("pass-through case but the body changed".into());
            }
            let want_vary: Vec<Vec<u8>> = c.vary.iter().map(|v| v.as_bytes().to_vec()).collect();
            if r_vary != want_vary {
                fail("pass-through case but Vary changed".into());
            }
        } else {
            let coding = label.clone().unwrap_or_else(|| "identity".into());
            if !["identity", "gzip", "deflate", "br", "zstd"].contains(&coding.as_str()) {
                fail(format!("label {coding} is not a supported coding"));
            }
            match whole_decode(&coding, &concat) {
                Ok(d) if d == body => {}
                Ok(d) => fail(format!("decoding with the labelled coding {coding} gives {} bytes, body has {}", d.len(), body.len())),
                Err(e) => fail(format!("body does not decode with the labelled coding {coding}: {e}")),
            }
            if label.is_some() {
                if !r_vary.iter().any(|v| String::from_utf8_lossy(v).to_ascii_lowercase().contains("accept-encoding")) {
                    fail("encoded response without Vary: accept-encoding".into());
                }
                // (F29: update_head removes a Content-Length header put there by the handler)
                if r_size != BodySize::Stream || r_cl.is_some() {
                    fail(format!("encoded response still announces a length ({r_size:?}, {r_cl:?})"));
                }
                if r_no_chunking {
                    fail("encoded response with chunking still disabled: the handler's stale Content-Length would be sent".into());
                }
                if !compressible(&c.ctype) {
                    fail("image/video content type was compressed".into());
                }
            }
            // permitted by the request (skipped when the header is not well-formed; for content
            // types the middleware never compresses identity is used regardless: documented)
            if let Some(Some(e)) = &entries {
                if compressible(&c.ctype) && !permitted(e, &coding) {
                    fail(format!("coding {coding} is not permitted by Accept-Encoding {:?}", c.ae));
                }
            }
            if c.ae.is_none() && label.is_some() {
                fail("encoded although no Accept-Encoding was sent".into());
            }
        }
    }

    // ------------------------------------------------------------------------------ model case
    let (ae_term, _) = parsed_ae_term(&c.ae);
    // twin codec run for every coding the response may use: the one on the label
    let label = r_ce.as_ref().map(|v| String::from_utf8_lossy(v).to_string()).unwrap_or_default();
    let (takes, finish) = match (handler_ce.is_none(), TwinEnc::new(&label)) {
        (true, Some(mut e)) => {
            let mut t = vec![];
            for ch in &chunks {
                e.write(ch);
                t.push(e.take());
            }
            (t, e.finish())
        }
        _ => (vec![], vec![]),
    };
    let size_term = match (c.body_type.as_str(), body.len()) {
        ("none", _) => "SzNone".to_string(),
        ("stream", _) => "SzStream".to_string(),
        (_, n) => format!("(SzSized {n})"),
    };
    let coq_case = format!(
        "CResp {} {} {} {} {} {} {} {} {} {} {} [] {}%nat",
        ae_term,
        coq_bool(compressible(&c.ctype)),
        c.status,
        coq_opt(&handler_ce, |s| coq_bytes(s.as_bytes())),
        coq_list(&c.vary.iter().collect::<Vec<_>>(), |s| coq_bytes(s.as_bytes())),
        coq_bool(c.no_chunking),
        coq_opt(&(if c.no_chunking { Some(body.len().to_string()) } else { None }), |s| coq_bytes(s.as_bytes())),
        size_term,
        coq_list(&chunks, |x| coq_bchunk(x)),
        coq_list(&takes, |x| coq_tok(x)),
        coq_tok(&finish),
        n_after
    );
    let v_size = match r_size {
        BodySize::None => V::t0("none"),
        BodySize::Sized(n) => V::T("sized", vec![V::n(n)]),
        BodySize::Stream => V::t0("stream"),
    };
    let expect = if r_status == 406 {
        V::t0("not_acceptable")
    } else {
        V::T(
            "resp",
            vec![
                V::T("head", vec![V::n(r_status), V::opt(r_ce.as_ref(), V::h), V::L(r_vary.iter().map(V::h).collect()), V::b(r_no_chunking), V::opt(r_cl.as_ref(), V::h)]),
                v_size,
                V::L(got.iter().map(|g| v_tok(g)).collect()),
                V::b(!err),
                V::L(after.iter().map(|a| V::t0(a)).collect()),
                V::n(late_polls as u64),
            ],
        )
    };
    let show = format!(
        "{} ce={:?} vary={} size={:?} chunks={} bytes={} late_body_polls={late_polls} polls_after_body_end={}",
        r_status,
        r_ce.as_ref().map(|v| String::from_utf8_lossy(v).to_string()),
        r_vary.len(),
        r_size,
        got.len(),
        concat.len(),
        after_end.borrow()
    );
    let encoded = r_ce.is_some() && handler_ce.is_none();
    let tags = vec![
        "kind:resp".to_string(),
        format!("status:{}", c.status),
        format!("body:{}", c.body_type),
        format!("len:{}", match body.len() { 0 => "0", 1 => "1", 2..=1022 => "2-1022", 1023..=1025 => "1023-1025", 1026..=2047 => "1026-2047", 2048..=2050 => "2048-2050", 2051..=65535 => "2051-64K", _ => "64K+" }),
        format!("chunks:{}", match chunks.len() { 0 => "0", 1 => "1", 2..=8 => "2-8", _ => "9+" }),
        format!("coding:{}", if r_status == 406 { "406".to_string() } else if label.is_empty() { "none".into() } else { label.clone() }),
        format!("ae:{}", match &entries { None => "absent", Some(None) => "malformed", Some(Some(e)) if e.iter().any(|x| x.0 == "*") => "wildcard", Some(Some(e)) if e.is_empty() => "empty", _ => "list" }),
        format!("bodykind:{}", c.body.kind),
        format!("sched:{}", if c.pend { "pending" } else { "ready" }),
        format!("chunk-max:{}", match chunks.iter().map(|x| x.len()).max().unwrap_or(0) { 0..=1023 => "<1024 (in place)", _ => ">=1024 (blocking pool)" }),
        format!("after-end:{}", if c.after_end.is_empty() { "none-again" } else { c.after_end.as_str() }),
    ];
    CaseOut {
        coq_case: Some(coq_case),
        expect: Some(expect.coq()),
        sig: format!("resp|{show}"),
        impl_show: show,
        oracle_ok: why.is_empty(),
        oracle_why: why,
        known_class,
        nontrivial: encoded && chunks.len() >= 2,
        tags,
        ..Default::default()
    }
}


// -------------------------------------------------------------------------------------- wire case

struct RawResponse {
    status: u16,
    headers: Vec<(String, String)>,
    /// bytes after the header block, exactly as written to the socket
    raw_body: Vec<u8>,
}
impl RawResponse {
    fn all(&self, name: &str) -> Vec<&str> {
        self.headers.iter().filter(|(k, _)| k.eq_ignore_ascii_case(name)).map(|(_, v)| v.as_str()).collect()
    }
}
fn parse_raw(raw: &[u8]) -> Result<RawResponse, String> {
    let end = raw.windows(4).position(|w| w == b"\r\n\r\n").ok_or("no end of response head")?;
    let head = std::str::from_utf8(&raw[..end]).map_err(|_| "head is not utf-8")?;
    let mut lines = head.split("\r\n");
    let status_line = lines.next().ok_or("no status line")?;
    let status: u16 = status_line.split(' ').nth(1).and_then(|s| s.parse().ok()).ok_or("bad status line")?;
    let mut headers = vec![];
    for l in lines {
        let (k, v) = l.split_once(':').ok_or("bad header line")?;
        headers.push((k.trim().to_string(), v.trim().to_string()));
    }
    Ok(RawResponse { status, headers, raw_body: raw[end + 4..].to_vec() })
}
fn dechunk(mut raw: &[u8]) -> Result<Vec<u8>, String> {
    let mut out = vec![];
    loop {
        let eol = raw.windows(2).position(|w| w == b"\r\n").ok_or("chunk size line missing")?;
        let size_str = std::str::from_utf8(&raw[..eol]).map_err(|_| "chunk size not utf-8")?;
        let size = usize::from_str_radix(size_str.split(';').next().unwrap_or("").trim(), 16).map_err(|_| "bad chunk size")?;
        raw = &raw[eol + 2..];
        if size == 0 {
            return if raw == b"\r\n" { Ok(out) } else { Err(format!("{} bytes after the last chunk", raw.len())) };
        }
        if raw.len() < size + 2 || &raw[size..size + 2] != b"\r\n" {
            return Err("chunk shorter than announced".into());
        }
        out.extend_from_slice(&raw[..size]);
        raw = &raw[size + 2..];
    }
}

/// the same handler + Compress behind a real HTTP/1 connection (scripted socket); the oracle reads
/// the raw bytes written to the socket. No model evaluation (framing is C02's model).
async fn run_wire(c: &Case) -> CaseOut {
    use vh::h1conn::{Conn, ConnCfg, ConnPoll, ScriptIo};
    let (body, chunks) = body_chunks(c);
    let after_end = Rc::new(RefCell::new(0usize));
    let (c2, chunks2, body2, after2) = (c.clone(), chunks.clone(), body.clone(), after_end.clone());
    let io = ScriptIo::new();
    let factory = actix_service::map_config(
        App::new().wrap(Compress::default()).default_service(web::to(move || {
            let (c, chunks, body, after) = (c2.clone(), chunks2.clone(), body2.clone(), after2.clone());
            async move { handler_response(&c, body, chunks, after) }
        })),
        |_| actix_web::dev::AppConfig::default(),
    );
    let mut conn = Conn::start(ConnCfg::default(), io.clone(), factory).await;
    let mut req = String::from(match c.req_mode.as_str() {
        "upgrade" => "GET / HTTP/1.1\r\nhost: localhost\r\nconnection: upgrade\r\nupgrade: websocket\r\n",
        "connect" => "CONNECT localhost:80 HTTP/1.1\r\nhost: localhost\r\n",
        _ => "GET / HTTP/1.1\r\nhost: localhost\r\nconnection: close\r\n",
    });
    if let Some(ae) = &c.ae {
        req.push_str(&format!("accept-encoding: {ae}\r\n"));
    }
    req.push_str("\r\n");
    io.push_read(req.as_bytes());
    if !c.req_mode.is_empty() {
        // the client of a refused upgrade / CONNECT sends nothing more
        io.close_read();
    }
    let mut outcome = ConnPoll::Pending;
    for _ in 0..200_000 {
        outcome = conn.poll();
        if outcome != ConnPoll::Pending {
            break;
        }
        if conn.woken() == 0 {
            // waiting for the blocking pool
            tokio::time::sleep(std::time::Duration::from_millis(1)).await;
        } else {
            tokio::task::yield_now().await;
        }
    }
    let raw = io.take_written();

    let mut why = String::new();
    let mut fail = |m: String| {
        if why.is_empty() {
            why = m;
        }
    };
    let mut show = format!("conn={outcome:?} written={}", raw.len());
    let mut framing = "none";
    let mut label = String::new();
    if outcome == ConnPoll::Pending {
        fail("connection did not finish".into());
    }
    match parse_raw(&raw) {
        Err(e) => fail(format!("response on the wire does not parse: {e}")),
        Ok(r) => {
            let cl = r.all("content-length");
            let te = r.all("transfer-encoding");
            let ce = r.all("content-encoding");
            label = ce.first().map(|s| s.to_string()).unwrap_or_default();
            show = format!("{} ce={:?} cl={:?} te={:?} raw_body={}", r.status, ce, cl, te, r.raw_body.len());
            if cl.len() > 1 || te.len() > 1 || ce.len() > 1 {
                fail("duplicate framing / coding headers".into());
            }
            if !cl.is_empty() && !te.is_empty() {
                fail("both Content-Length and Transfer-Encoding on the wire".into());
            }
            // the framed body
            let framed: Result<Vec<u8>, String> = if te.first().map_or(false, |t| t.eq_ignore_ascii_case("chunked")) {
                framing = "chunked";
                dechunk(&r.raw_body)
            } else if let Some(l) = cl.first() {
                framing = "content-length";
                match l.parse::<usize>() {
                    // the connection is closed after this response: everything after the head is body
                    Ok(n) if n == r.raw_body.len() => Ok(r.raw_body.clone()),
                    Ok(n) => Err(format!("Content-Length {n} on the wire but {} body bytes were sent (handler body: {} bytes)", r.raw_body.len(), body.len())),
                    Err(_) => Err(format!("unparsable Content-Length {l}")),
                }
            } else {
                framing = "eof";
                Ok(r.raw_body.clone())
            };
            match framed {
                Err(e) => fail(e),
                Ok(framed) => {
                    if r.status != 406 {
                        if r.status != c.status {
                            fail(format!("status {} -> {}", c.status, r.status));
                        }
                        // a Content-Encoding set by the handler describes the handler's own bytes
                        let coding = if label.is_empty() || c.ce.is_some() { "identity" } else { label.as_str() };
                        match whole_decode(coding, &framed) {
                            Ok(d) if d == body => {}
                            Ok(d) => fail(format!("framed body decodes ({coding}) to {} bytes, handler body has {}", d.len(), body.len())),
                            Err(e) => fail(format!("framed body does not decode with {coding}: {e}")),
                        }
                    }
                }
            }
        }
    }
    CaseOut {
        sig: format!("wire|{show}"),
        impl_show: show,
        oracle_ok: why.is_empty(),
        oracle_why: why,
        nontrivial: !label.is_empty(),
        tags: vec![
            "kind:wire".into(),
            format!("framing:{framing}"),
            format!("request:{}", if c.req_mode.is_empty() { "plain" } else { &c.req_mode }),
            format!("coding:{}", if label.is_empty() { "none" } else { &label }),
            format!("announced-length:{}", c.no_chunking),
            format!("announced+encoded (F29 family):{}", c.no_chunking && will_encode(c)),
            format!("body:{}", c.body_type),
            format!("sched:{}", if c.pend { "pending" } else { "ready" }),
        ],
        ..Default::default()
    }
}


// ---------------------------------------------------------------------------------------- h2 case

/// the same handler + Compress behind a real HTTP/2 connection (h2 client over an in-memory
/// duplex pipe, as in c08.rs); the oracle looks at the response head and the DATA the client gets
async fn run_h2(c: &Case) -> CaseOut {
    use actix_http::HttpService;
    use actix_service::{Service as _, ServiceFactory as _};
    let (body, chunks) = body_chunks(c);
    let after_end = Rc::new(RefCell::new(0usize));
    let (c2, chunks2, body2, after2) = (c.clone(), chunks.clone(), body.clone(), after_end.clone());
    let (cio, sio) = tokio::io::duplex(1 << 16);
    let factory = HttpService::build().h2(actix_service::map_config(
        App::new().wrap(Compress::default()).default_service(web::to(move || {
            let (c, chunks, body, after) = (c2.clone(), chunks2.clone(), body2.clone(), after2.clone());
            async move { handler_response(&c, body, chunks, after) }
        })),
        |_| actix_web::dev::AppConfig::default(),
    ));
    let svc = factory.new_service(()).await.expect("service");
    tokio::task::yield_now().await;
    let conn = svc.call((sio, None));
    let server = actix_rt::spawn(async move {
        let _ = conn.await;
    });
    let mut status = 0u16;
    let mut cl: Vec<String> = vec![];
    let mut ce: Vec<String> = vec![];
    let mut data: Vec<u8> = vec![];
    let mut end = String::from("no response");
    if let Ok((sr, connection)) = h2::client::handshake(cio).await {
        let client = actix_rt::spawn(async move {
            let _ = connection.await;
        });
        if let Ok(mut sr) = sr.ready().await {
            let mut rb = http::Request::builder().method(http::Method::GET).uri("http://localhost/");
            if let Some(ae) = &c.ae {
                rb = rb.header("accept-encoding", ae.as_str());
            }
            match sr.send_request(rb.body(()).unwrap(), true) {
                Err(e) => end = format!("send: {e}"),
                Ok((resp, _)) => match resp.await {
                    Err(e) => end = format!("head: {e}"),
                    Ok(r) => {
                        let (parts, mut rbody) = r.into_parts();
                        status = parts.status.as_u16();
                        let vals = |n: &str| parts.headers.get_all(n).iter().map(|v| String::from_utf8_lossy(v.as_bytes()).to_string()).collect::<Vec<_>>();
                        cl = vals("content-length");
                        ce = vals("content-encoding");
                        end = "end".into();
                        while let Some(item) = rbody.data().await {
                            match item {
                                Ok(b) => {
                                    let _ = rbody.flow_control().release_capacity(b.len());
                                    data.extend_from_slice(&b);
                                }
                                Err(e) => {
                                    end = format!("data: {e}");
                                    break;
                                }
                            }
                        }
                    }
                },
            }
        }
        client.abort();
    }
    server.abort();

    let mut why = String::new();
    let mut fail = |m: String| {
        if why.is_empty() {
            why = m;
        }
    };
    let label = ce.first().cloned().unwrap_or_default();
    if status == 0 {
        fail(format!("no response head: {end}"));
    } else if status != 406 {
        if cl.len() > 1 || ce.len() > 1 {
            fail("duplicate length / coding headers".into());
        }
        if let Some(l) = cl.first() {
            if l.parse::<usize>().ok() != Some(data.len()) || end != "end" {
                fail(format!("content-length {l} announced, {} DATA bytes received, stream end: {end} (handler body: {} bytes)", data.len(), body.len()));
            }
        }
        if end != "end" {
            fail(format!("response stream failed: {end}"));
        }
        let coding = if label.is_empty() || c.ce.is_some() { "identity" } else { label.as_str() };
        match whole_decode(coding, &data) {
            Ok(d) if d == body => {}
            Ok(d) => fail(format!("DATA decodes ({coding}) to {} bytes, handler body has {}", d.len(), body.len())),
            Err(e) => fail(format!("DATA does not decode with {coding}: {e}")),
        }
    }
    let show = format!("{status} ce={ce:?} cl={cl:?} data={} end={end}", data.len());
    CaseOut {
        sig: format!("h2|{show}"),
        impl_show: show,
        oracle_ok: why.is_empty(),
        oracle_why: why,
        nontrivial: !label.is_empty(),
        tags: vec![
            "kind:h2".into(),
            format!("coding:{}", if label.is_empty() { "none" } else { &label }),
            format!("announced-length:{}", c.no_chunking),
            format!("announced+encoded (F29 family):{}", c.no_chunking && will_encode(c)),
            format!("body:{}", c.body_type),
        ],
        ..Default::default()
    }
}

/// will `Compress` encode the answer of this case?  Decided from the case alone (own header parser):
/// some supported coding other than identity is listed explicitly with q > 0, the content type is
/// one the middleware compresses, nothing forbids encoding, and there is a body.
fn will_encode(c: &Case) -> bool {
    let listed = c.ae.as_ref().and_then(|raw| parse_ae(raw)).map_or(false, |e| {
        ["gzip", "deflate", "br", "zstd"].iter().any(|cod| e.iter().filter(|x| x.0 == *cod).map(|x| x.1).max().map_or(false, |q| q > 0))
    });
    listed
        && compressible(&c.ctype)
        && c.ce.is_none()
        && !matches!(c.status, 101 | 204 | 206)
        && c.body_type != "none"
        && (c.body_type == "stream" || c.body.len > 0)
}

// --------------------------------------------------------------------------------------- dec case

fn content_encoding(enc: &str) -> ContentEncoding {
    match enc {
        "gzip" => ContentEncoding::Gzip,
        "deflate" => ContentEncoding::Deflate,
        "br" => ContentEncoding::Brotli,
        "zstd" => ContentEncoding::Zstd,
        _ => ContentEncoding::Identity,
    }
}

async fn run_dec(c: &Case) -> CaseOut {
    let body = gen_body(&c.body);
    let mut wire = whole_encode(&c.enc, &body);
    if let Some(t) = c.truncate {
        wire.truncate(t.min(wire.len()));
    }
    if let Some((i, m)) = c.corrupt {
        if !wire.is_empty() {
            let k = i % wire.len();
            wire[k] ^= m | 1;
        }
    }
    let damaged = c.truncate.is_some() || c.corrupt.is_some();
    let chunks = if wire.is_empty() && c.cuts.is_empty() && c.every.is_none() { vec![] } else { segments(c, &wire) };
    let s = WireStream { items: chunks.iter().map(|x| Bytes::from(x.clone())).collect(), pend: c.pend, parked: false };
    // the request's Content-Encoding fields, as sent
    let values: Vec<Vec<u8>> = match &c.ce_values {
        Some(v) => v.iter().map(|s| s.chars().map(|ch| ch as u32 as u8).collect()).collect(),
        None => vec![(match c.enc.as_str() { "unknown" => "x-unknown", e => e }).as_bytes().to_vec()],
    };
    let mut headers = actix_http::header::HeaderMap::new();
    for v in &values {
        match actix_http::header::HeaderValue::from_bytes(v) {
            Ok(hv) => headers.append(header::CONTENT_ENCODING, hv),
            Err(_) => {
                return CaseOut {
                    impl_show: "header value not representable".into(),
                    oracle_ok: true,
                    tags: vec!["kind:dec".into(), "skipped:header-value".into()],
                    ..Default::default()
                }
            }
        }
    }
    // what the header SAYS (own reading of RFC 7231 3.1.2.1: one content-coding token, compared
    // case-insensitively, optional whitespace around a field value is not part of it)
    let said: String = match values.first() {
        Some(v) => {
            let t = String::from_utf8_lossy(v).trim_matches(|ch| ch == ' ' || ch == '\t').to_ascii_lowercase();
            if ["gzip", "deflate", "br", "zstd"].contains(&t.as_str()) { t } else { "identity".into() }
        }
        None => "identity".into(),
    };
    let sent_as = if ["gzip", "deflate", "br", "zstd"].contains(&c.enc.as_str()) { c.enc.clone() } else { "identity".to_string() };
    let consistent = said == sent_as;
    let _ = content_encoding;
    let mut d = Decoder::from_headers(s, &headers);
    let mut got: Vec<Option<Vec<u8>>> = vec![];
    let mut errored = false;
    let mut runaway = false;
    loop {
        match d.next().await {
            Some(Ok(b)) => got.push(Some(b.to_vec())),
            Some(Err(_)) => {
                got.push(None);
                errored = true;
                break;
            }
            None => break,
        }
        // Decoder emits at most one item per wire chunk plus the feed_eof output
        if got.len() > chunks.len() + 8 {
            runaway = true;
            errored = true;
            break;
        }
    }
    let mut after: Vec<&'static str> = vec![];
    if !errored {
        for _ in 0..3 {
            after.push(match d.next().await {
                None => "end",
                Some(Ok(_)) => "chunk",
                Some(Err(_)) => "err",
            });
        }
    }
    let delivered: Vec<u8> = got.iter().flatten().flatten().copied().collect();
    let mut why = String::new();
    if runaway {
        why = "the decoder emitted more items than its wire chunks and feed_eof allow: the stream does not end".into();
    } else if !damaged && consistent {
        if errored {
            why = format!("valid body sent with Content-Encoding {:?} produced an error", c.ce_values);
        } else if delivered != body {
            why = format!("body sent with Content-Encoding {:?} ({said}): delivered {} bytes, original has {}", values.first().map(|v| String::from_utf8_lossy(v).to_string()), delivered.len(), body.len());
        }
    }
    if why.is_empty() && after.iter().any(|a| *a != "end") {
        why = format!("after the end of the stream further polls gave {after:?}");
    }
    if why.is_empty() && got.iter().any(|g| matches!(g, Some(b) if b.is_empty())) && TwinDec::new(&said).is_some() {
        why = "decoder emitted an empty chunk".into();
    }
    // twin run at library level
    let mut feeds: Vec<Option<Vec<u8>>> = vec![];
    let mut eof: Option<Vec<u8>> = Some(vec![]);
    let has = match TwinDec::new(&said) {
        Some(mut t) => {
            let mut failed = false;
            for ch in &chunks {
                match t.feed(ch) {
                    Ok(o) => feeds.push(Some(o)),
                    Err(()) => {
                        feeds.push(None);
                        failed = true;
                        break;
                    }
                }
            }
            if !failed {
                eof = t.eof().ok();
            }
            true
        }
        None => false,
    };
    let coq_case = format!(
        "CDec {} {} {} {} []",
        coq_list(&values, |v| coq_bytes(v)),
        coq_list(&chunks, |x| coq_bchunk(x)),
        coq_list(&feeds, |f| coq_opt(f, |x| coq_tok(x))),
        coq_opt(&eof, |x| coq_tok(x))
    );
    let expect = V::T(
        "dec",
        vec![
            V::L(got.iter().map(|g| match g { Some(b) => v_tok(b), None => V::t0("err") }).collect()),
            V::b(true),
            V::L(after.iter().map(|a| V::t0(a)).collect()),
        ],
    );
    let show = format!("chunks={} bytes={} err={}", got.len(), delivered.len(), errored);
    CaseOut {
        coq_case: Some(coq_case),
        expect: Some(expect.coq()),
        sig: format!("dec|{}|{show}", c.enc),
        impl_show: show,
        oracle_ok: why.is_empty(),
        oracle_why: why,
        nontrivial: has && chunks.len() >= 2 && !damaged,
        tags: vec![
            "kind:dec".into(),
            format!("coding:{}", c.enc),
            format!("header:{}", match values.first() {
                None => "absent",
                Some(v) if v.iter().any(|b| *b >= 0x80) => "non-ascii",
                Some(v) if said == "identity" && !v.eq_ignore_ascii_case(b"identity") => "other",
                Some(v) if v.iter().any(|b| *b == b' ' || *b == b'\t') && v.iter().any(|b| b.is_ascii_uppercase()) => "token, mixed case + ows",
                Some(v) if v.iter().any(|b| *b == b' ' || *b == b'\t') => "token + ows",
                Some(v) if v.iter().any(|b| b.is_ascii_uppercase()) => "token, mixed case",
                Some(_) => "token, lower case",
            }),
            format!("fields:{}", values.len().min(2)),
            format!("chunks:{}", match chunks.len() { 0 => "0", 1 => "1", 2..=8 => "2-8", _ => "9+" }),
            format!("wire:{}", if damaged { "damaged" } else { "valid" }),
            format!("sched:{}", if c.pend { "pending" } else { "ready" }),
            format!("chunk-max:{}", match chunks.iter().map(|x| x.len()).max().unwrap_or(0) { 0..=2048 => "<2049 (in place)", _ => ">=2049 (blocking pool)" }),
            format!("outcome:{}", if errored { "error" } else { "ok" }),
        ],
        ..Default::default()
    }
}

// --------------------------------------------------------------------------------------- neg case

fn run_neg(c: &Case) -> CaseOut {
    let (ae_term, ae) = parsed_ae_term(&c.ae);
    let entries = c.ae.as_ref().and_then(|raw| parse_ae(raw));
    let mut why = String::new();
    let mut known_class = String::new();
    let (coq_case, expect, show) = match &ae {
        None => (None, None, "unparsed".to_string()),
        Some(ae) => {
            let sup = supported();
            let n = ae.negotiate(sup.iter());
            let ranked = ae.ranked();
            if let Some(e) = &entries {
                if f4_class(e) {
                    known_class = "F4".into();
                }
                match &n {
                    Some(enc) => {
                        let name = String::from_utf8(coding_name(enc)).unwrap();
                        if !sup.contains(enc) {
                            why = format!("negotiated {name} which is not supported");
                        } else if !permitted(e, &name) {
                            why = format!("negotiated {name} which Accept-Encoding {:?} does not permit", c.ae);
                        }
                    }
                    None => {
                        if permitted(e, "identity") {
                            why = "nothing negotiated although identity is acceptable".into();
                        }
                    }
                }
            }
            let v = V::T(
                "neg",
                vec![
                    V::opt(n.as_ref(), |e| V::h(coding_name(e))),
                    V::L(ranked
                        .iter()
                        .map(|p| match p {
                            Preference::Any => V::t0("any"),
                            Preference::Specific(e) => V::T("spec", vec![V::h(coding_name(e))]),
                        })
                        .collect()),
                ],
            );
            let items = ae_term.trim_start_matches("(Some ").trim_end_matches(')').to_string();
            (Some(format!("CNeg {items}")), Some(v.coq()), v.show())
        }
    };
    CaseOut {
        coq_case,
        expect,
        sig: format!("neg|{show}"),
        impl_show: show,
        oracle_ok: why.is_empty(),
        oracle_why: why,
        known_class,
        nontrivial: entries.as_ref().map_or(false, |e| e.len() >= 2),
        tags: vec![
            "kind:neg".into(),
            format!("ae:{}", match &entries { None => "malformed", Some(e) if e.iter().any(|x| x.0 == "*") => "wildcard", Some(e) if e.is_empty() => "empty", _ => "list" }),
            format!("entries:{}", entries.as_ref().map_or(0, |e| e.len().min(6))),
        ],
        ..Default::default()
    }
}

// --------------------------------------------------------------------------------------- law case

/// the laws the Coq theorems assume, tested on the real libraries
fn run_law(c: &Case) -> CaseOut {
    let mut rng = Rng::new(c.ops_seed);
    let body = gen_body(&c.body);
    let mut why = String::new();
    // codec_law: writes interleaved with takes, then finish; whole decode gives what was written
    let mut e = TwinEnc::new(&c.enc).expect("coding");
    let mut out = vec![];
    let mut pos = 0;
    let mut ops = 0;
    while pos < body.len() {
        let n = match rng.below(4) {
            0 => 1,
            1 => rng.range(1, 1500) as usize,
            _ => rng.range(1, 64) as usize,
        }
        .min(body.len() - pos);
        e.write(&body[pos..pos + n]);
        pos += n;
        ops += 1;
        for _ in 0..rng.below(3) {
            out.extend(e.take());
            ops += 1;
        }
    }
    out.extend(e.take());
    out.extend(e.finish());
    match whole_decode(&c.enc, &out) {
        Ok(d) if d == body => {}
        Ok(d) => why = format!("codec_law: {} decodes to {} bytes, {} were written", c.enc, d.len(), body.len()),
        Err(x) => why = format!("codec_law: {} output does not decode: {x}", c.enc),
    }
    // decoder_law: streaming decode of any segmentation = whole decode
    let wire = whole_encode(&c.enc, &body);
    let (lc, le) = gen_segmentation(&mut rng, wire.len());
    let segs = segments(&Case { cuts: lc, every: le, ..Default::default() }, &wire);
    let mut d = TwinDec::new(&c.enc).unwrap();
    let mut plain = vec![];
    let mut bad = false;
    for s in &segs {
        match d.feed(s) {
            Ok(o) => plain.extend(o),
            Err(()) => bad = true,
        }
    }
    match d.eof() {
        Ok(o) => plain.extend(o),
        Err(()) => bad = true,
    }
    if why.is_empty() && (bad || plain != body) {
        why = format!("decoder_law: streaming {} decode over {} segments gives {} bytes (error {bad}), body has {}", c.enc, segs.len(), plain.len(), body.len());
    }
    let show = format!("{} ops={} segs={}", c.enc, ops, segs.len());
    CaseOut {
        sig: format!("law|{show}|{}", c.body.len),
        impl_show: show,
        oracle_ok: why.is_empty(),
        oracle_why: why,
        nontrivial: ops >= 3,
        tags: vec!["kind:law".into(), format!("coding:{}", c.enc)],
        ..Default::default()
    }
}

// -------------------------------------------------------------------------------------- generator

fn gen_ae(rng: &mut Rng) -> Option<String> {
    if rng.chance(1, 12) {
        return None;
    }
    if rng.chance(1, 20) {
        return Some(rng.pick(&["", " ", "gzip;q=2", "gzip;q=abc", ";;", "gzip;;q=1", "gzip; q=0.5000", "*;q=1.1"]).to_string());
    }
    let names = ["gzip", "br", "deflate", "zstd", "identity", "*", "*", "identity", "compress", "x-foo", "GZIP", "Br"];
    let qs = ["", "", ";q=1", ";q=1.0", ";q=0", ";q=0.0", ";q=0.000", ";q=0.5", ";q=0.8", ";q=0.001", "; q=0.3", ";Q=0.7"];
    let n = rng.range(1, 5);
    let mut parts = vec![];
    for _ in 0..n {
        parts.push(format!("{}{}", rng.pick(&names), rng.pick(&qs)));
    }
    Some(parts.join(if rng.chance(1, 2) { ", " } else { "," }))
}

fn gen_case(rng: &mut Rng, thorough: bool) -> Case {
    let mut c = Case { status: 200, body_type: "stream".into(), enc: "identity".into(), ..Default::default() };
    let lens = [0usize, 1, 2, 100, 1023, 1024, 1025, 2048, 2049, 2050, 3000, 5000];
    match rng.below(10) {
        0..=3 => {
            c.kind = "resp".into();
            c.ae = gen_ae(rng);
            c.status = *rng.pick(&[200u16, 200, 200, 200, 201, 404, 101, 204, 206]);
            c.ctype = rng.pick(&["text/plain", "text/plain", "", "application/json", "image/png", "image/svg+xml", "video/mp4"]).to_string();
            if rng.chance(1, 10) {
                c.ce = Some(rng.pick(&["gzip", "identity", "br", "x-custom"]).to_string());
            }
            if rng.chance(1, 8) {
                c.vary = Some(rng.pick(&["origin", "accept-encoding", "accept-language, origin"]).to_string());
            }
            c.body_type = rng.pick(&["stream", "stream", "stream", "sized", "bytes", "none"]).to_string();
            let len = if rng.chance(1, if thorough { 15 } else { 60 }) { 1 << 20 } else if rng.chance(1, 3) { rng.range(0, 6000) as usize } else { *rng.pick(&lens) };
            let kind = if len <= 6000 && rng.chance(1, 3) { "rand" } else { "runs" };
            c.body = BodySpec { kind: kind.into(), len, seed: rng.next() % 1000 };
            (c.cuts, c.every) = gen_segmentation(rng, len);
            c.pend = rng.chance(1, 3);
            c.no_chunking = rng.chance(1, 4);
            if rng.chance(1, 3) {
                c.after_end = rng.pick(&["pend", "panic"]).to_string();
            }
            // a single large incompressible chunk (the compressor's output buffer fills inside one write)
            if rng.chance(1, 16) {
                c.ae = Some(rng.pick(&["gzip", "deflate", "br", "zstd"]).to_string());
                c.status = 200;
                c.ce = None;
                c.ctype = "application/octet-stream".into();
                c.body = BodySpec { kind: "rand".into(), len: *rng.pick(&[65536usize, 262144]), seed: rng.next() % 1000 };
                c.cuts = vec![];
                c.every = None;
                c.body_type = rng.pick(&["bytes", "stream"]).to_string();
            }
            // the same response also over a real connection
            if rng.chance(1, 4) && !matches!(c.status, 101 | 204 | 206) && c.ae.as_ref().map_or(true, |a| parse_ae(a).is_some() && !a.trim().is_empty()) {
                c.kind = "wire".into();
                c.after_end = String::new();
                c.no_chunking = rng.chance(1, 2);
                // CONNECT / upgrade requests put the h1 codec into STREAM mode; HTTP/2 has no chunking
                match rng.below(6) {
                    0 => c.req_mode = "upgrade".into(),
                    1 => c.req_mode = "connect".into(),
                    2 | 3 => c.kind = "h2".into(),
                    _ => {}
                }
            }
        }
        4 | 5 => {
            c.kind = "dec".into();
            c.enc = rng.pick(&["gzip", "deflate", "br", "zstd", "gzip", "br", "identity", "unknown"]).to_string();
            let len = if rng.chance(1, if thorough { 15 } else { 60 }) { 1 << 20 } else if rng.chance(1, 3) { rng.range(0, 9000) as usize } else { *rng.pick(&lens) };
            let kind = if len <= 9000 && rng.chance(1, 2) { "rand" } else { "runs" };
            c.body = BodySpec { kind: kind.into(), len, seed: rng.next() % 1000 };
            let wire_len = whole_encode(&c.enc, &gen_body(&c.body)).len();
            (c.cuts, c.every) = gen_segmentation(rng, wire_len);
            c.pend = rng.chance(1, 3);
            if rng.chance(1, 5) && c.enc != "identity" && c.enc != "unknown" && wire_len > 2 {
                if rng.chance(1, 2) {
                    c.corrupt = Some((rng.below(wire_len as u64) as usize, rng.below(255) as u8));
                } else {
                    c.truncate = Some(rng.range(1, wire_len as u64 - 1) as usize);
                }
            }
            // how the header spells the coding: tokens are case-insensitive, optional whitespace
            // may surround the value, several fields may be present (the first decides)
            if rng.chance(2, 3) {
                let canon = if c.enc == "unknown" { "x-unknown".to_string() } else { c.enc.clone() };
                let mut tok: String = match rng.below(4) {
                    0 => canon.to_ascii_uppercase(),
                    1 => canon.chars().map(|ch| if rng.chance(1, 2) { ch.to_ascii_uppercase() } else { ch }).collect(),
                    2 => { let mut t = canon.clone(); if let Some(f) = t.get_mut(0..1) { f.make_ascii_uppercase(); } t }
                    _ => canon.clone(),
                };
                if rng.chance(1, 3) {
                    let ws = |rng: &mut Rng| -> String { (0..rng.below(3)).map(|_| if rng.chance(1, 3) { '\t' } else { ' ' }).collect() };
                    tok = format!("{}{}{}", ws(rng), tok, ws(rng));
                }
                let mut vals = vec![tok];
                if rng.chance(1, 8) {
                    vals.push(rng.pick(&["gzip", "br", "identity", "zstd"]).to_string());
                }
                c.ce_values = Some(vals);
            }
            // values that name no single supported coding: the body is sent as it is
            if rng.chance(1, 12) {
                c.enc = "identity".into();
                c.corrupt = None;
                c.truncate = None;
                c.ce_values = Some(match rng.below(7) {
                    0 => vec![],
                    1 => vec!["gzip, br".into()],
                    2 => vec!["gzipp".into()],
                    3 => vec!["x-gzip".into()],
                    4 => vec!["gzip\u{e9}".into()],
                    5 => vec!["".into()],
                    _ => vec!["g zip".into(), "gzip".into()],
                });
                (c.cuts, c.every) = gen_segmentation(rng, c.body.len);
            }
        }
        6..=8 => {
            c.kind = "neg".into();
            c.ae = gen_ae(rng).or(Some("*;q=0.5, identity;q=0.5".into()));
        }
        _ => {
            c.kind = "law".into();
            c.enc = rng.pick(&["gzip", "deflate", "br", "zstd"]).to_string();
            let len = if rng.chance(1, 30) { 200_000 } else { rng.range(0, 8000) as usize };
            c.body = BodySpec { kind: if rng.chance(1, 2) { "rand" } else { "runs" }.into(), len, seed: rng.next() % 1000 };
            c.ops_seed = rng.next();
        }
    }
    c
}

fn emit_case(em: &mut Emitter, id: String, c: Case) {
    let c2 = c.clone();
    let r = catch(move || {
        exec::run_local(async move {
            let fut = async {
                match c2.kind.as_str() {
                    "resp" => run_resp(&c2).await,
                    "wire" => run_wire(&c2).await,
                    "h2" => run_h2(&c2).await,
                    "dec" => run_dec(&c2).await,
                    "neg" => run_neg(&c2),
                    _ => run_law(&c2),
                }
            };
            match tokio::time::timeout(std::time::Duration::from_secs(60), fut).await {
                Ok(out) => out,
                Err(_) => CaseOut {
                    impl_show: "STALL".into(),
                    oracle_ok: false,
                    oracle_why: "the body stream did not finish within 60 s".into(),
                    tags: vec![format!("kind:{}", c2.kind), "stall".into()],
                    ..Default::default()
                },
            }
        })
    });
    let input = serde_json::to_value(&c).unwrap();
    match r {
        Ok(mut out) => {
            out.id = id;
            out.input = input;
            em.emit(out);
        }
        Err(p) => {
            em.panics += 1;
            em.emit(CaseOut {
                id,
                input,
                impl_show: format!("PANIC {p}"),
                oracle_ok: false,
                oracle_why: format!("implementation panicked: {p}"),
                tags: vec![format!("kind:{}", c.kind), "panic".into()],
                ..Default::default()
            });
        }
    }
}

fn main() {
    let args = parse_args();
    let mut em = Emitter::default();
    for (id, j) in args.fixed_inputs() {
        let c: Case = serde_json::from_value(j).expect("case");
        emit_case(&mut em, id, c);
    }
    if args.case.is_none() {
        let mut rng = Rng::new(args.seed);
        let n = args.n.unwrap_or(if args.thorough() { 6000 } else { 1500 });
        for i in 0..n {
            let mut r = rng.fork();
            let c = gen_case(&mut r, args.thorough());
            if std::env::var_os("C13_TRACE").is_some() {
                eprintln!("gen-{i} {}", serde_json::to_string(&c).unwrap());
            }
            emit_case(&mut em, format!("gen-{i}"), c);
        }
    }
    em.finish();
}
