//! Scripted in-memory socket + hand-polled HTTP/1 connection future (public API only).
//!
//! Usage (inside `exec::run_local(async { .. })`, i.e. on an actix runtime):
//!
//! ```ignore
//! tokio::time::pause();
//! let io = ScriptIo::new();
//! let mut conn = Conn::start(ConnCfg::default(), io.clone(), |req: Request| async move { Ok::<_, Error>(Response::ok()) }).await;
//! io.push_read(b"GET / HTTP/1.1\r\n\r\n");
//! let r = conn.poll();            // one poll of the connection future with a counting waker
//! let wire = io.take_written();
//! ```
//!
//! The connection future is polled only when the caller asks; `conn.woken()` tells whether its
//! waker fired since the last poll, so "poll only when woken" executors and lock-step executors
//! can both be written on top.

use std::{
    cell::RefCell,
    collections::VecDeque,
    future::Future,
    io,
    pin::Pin,
    rc::Rc,
    sync::Arc,
    task::{Context, Poll, Waker},
    time::Duration,
};

use actix_http::{body::MessageBody, HttpService, KeepAlive, Request, Response};
use actix_service::{IntoServiceFactory, Service, ServiceFactory};
use tokio::io::{AsyncRead, AsyncWrite, ReadBuf};

use crate::exec::CountWake;

/// what one `poll_write` call does
#[derive(Clone, Copy, Debug, PartialEq, Eq)]
pub enum WriteStep {
    /// accept at most this many bytes (>= 1)
    Accept(usize),
    Pending,
    /// Ok(0)
    Zero,
    Err,
}

#[derive(Clone, Copy, Debug, PartialEq, Eq)]
pub enum Step {
    Ready,
    Pending,
    Err,
}

#[derive(Default)]
pub struct IoState {
    pub read_q: VecDeque<u8>,
    pub read_eof: bool,
    pub read_err: bool,
    /// max bytes handed out per poll_read (0 = unlimited)
    pub read_chunk: usize,
    /// script consumed one entry per poll_write; when exhausted `write_default` applies
    pub write_script: VecDeque<WriteStep>,
    pub write_default: Option<WriteStep>,
    pub flush_script: VecDeque<Step>,
    pub shutdown_script: VecDeque<Step>,
    pub written: Vec<u8>,
    pub total_written: usize,
    pub total_read: usize,
    pub shutdown_called: usize,
    pub shutdown_done: bool,
    pub read_calls: usize,
    pub write_calls: usize,
    pub flush_calls: usize,
    /// sources that returned Pending since the counters were last cleared
    pub read_pending: usize,
    pub write_pending: usize,
    pub flush_pending: usize,
    pub shutdown_pending: usize,
    pub read_waker: Option<Waker>,
    pub write_waker: Option<Waker>,
}

/// Cloneable handle to the scripted socket.
#[derive(Clone, Default)]
pub struct ScriptIo(pub Rc<RefCell<IoState>>);

impl ScriptIo {
    pub fn new() -> Self {
        Self::default()
    }
    /// make bytes readable (wakes a reader that saw Pending)
    pub fn push_read(&self, data: &[u8]) {
        let mut s = self.0.borrow_mut();
        s.read_q.extend(data.iter().copied());
        if let Some(w) = s.read_waker.take() {
            w.wake();
        }
    }
    pub fn close_read(&self) {
        let mut s = self.0.borrow_mut();
        s.read_eof = true;
        if let Some(w) = s.read_waker.take() {
            w.wake();
        }
    }
    pub fn fail_read(&self) {
        let mut s = self.0.borrow_mut();
        s.read_err = true;
        if let Some(w) = s.read_waker.take() {
            w.wake();
        }
    }
    /// append write behaviour for the coming poll_write calls and wake a blocked writer
    pub fn script_writes(&self, steps: &[WriteStep]) {
        let mut s = self.0.borrow_mut();
        s.write_script.extend(steps.iter().copied());
        if let Some(w) = s.write_waker.take() {
            w.wake();
        }
    }
    pub fn set_write_default(&self, d: Option<WriteStep>) {
        let mut s = self.0.borrow_mut();
        s.write_default = d;
        if let Some(w) = s.write_waker.take() {
            w.wake();
        }
    }
    pub fn take_written(&self) -> Vec<u8> {
        std::mem::take(&mut self.0.borrow_mut().written)
    }
    pub fn unread(&self) -> usize {
        self.0.borrow().read_q.len()
    }
}

impl AsyncRead for ScriptIo {
    fn poll_read(self: Pin<&mut Self>, cx: &mut Context<'_>, buf: &mut ReadBuf<'_>) -> Poll<io::Result<()>> {
        let mut s = self.0.borrow_mut();
        s.read_calls += 1;
        if s.read_q.is_empty() {
            if s.read_err {
                return Poll::Ready(Err(io::Error::new(io::ErrorKind::ConnectionReset, "scripted reset")));
            }
            if s.read_eof {
                return Poll::Ready(Ok(()));
            }
            s.read_pending += 1;
            s.read_waker = Some(cx.waker().clone());
            return Poll::Pending;
        }
        let mut n = buf.remaining().min(s.read_q.len());
        if s.read_chunk > 0 {
            n = n.min(s.read_chunk);
        }
        let bytes: Vec<u8> = s.read_q.drain(..n).collect();
        s.total_read += n;
        buf.put_slice(&bytes);
        Poll::Ready(Ok(()))
    }
}

impl AsyncWrite for ScriptIo {
    fn poll_write(self: Pin<&mut Self>, cx: &mut Context<'_>, data: &[u8]) -> Poll<io::Result<usize>> {
        let mut s = self.0.borrow_mut();
        s.write_calls += 1;
        let step = match s.write_script.pop_front() {
            Some(st) => st,
            None => s.write_default.unwrap_or(WriteStep::Accept(usize::MAX)),
        };
        match step {
            WriteStep::Accept(k) => {
                let n = data.len().min(k.max(1));
                s.written.extend_from_slice(&data[..n]);
                s.total_written += n;
                Poll::Ready(Ok(n))
            }
            WriteStep::Pending => {
                s.write_pending += 1;
                s.write_waker = Some(cx.waker().clone());
                Poll::Pending
            }
            WriteStep::Zero => Poll::Ready(Ok(0)),
            WriteStep::Err => Poll::Ready(Err(io::Error::new(io::ErrorKind::BrokenPipe, "scripted write error"))),
        }
    }
    fn poll_flush(self: Pin<&mut Self>, cx: &mut Context<'_>) -> Poll<io::Result<()>> {
        let mut s = self.0.borrow_mut();
        s.flush_calls += 1;
        match s.flush_script.pop_front().unwrap_or(Step::Ready) {
            Step::Ready => Poll::Ready(Ok(())),
            Step::Pending => {
                s.flush_pending += 1;
                s.write_waker = Some(cx.waker().clone());
                Poll::Pending
            }
            Step::Err => Poll::Ready(Err(io::Error::new(io::ErrorKind::BrokenPipe, "scripted flush error"))),
        }
    }
    fn poll_shutdown(self: Pin<&mut Self>, cx: &mut Context<'_>) -> Poll<io::Result<()>> {
        let mut s = self.0.borrow_mut();
        s.shutdown_called += 1;
        match s.shutdown_script.pop_front().unwrap_or(Step::Ready) {
            Step::Ready => {
                s.shutdown_done = true;
                Poll::Ready(Ok(()))
            }
            Step::Pending => {
                s.shutdown_pending += 1;
                s.write_waker = Some(cx.waker().clone());
                Poll::Pending
            }
            Step::Err => Poll::Ready(Err(io::Error::new(io::ErrorKind::BrokenPipe, "scripted shutdown error"))),
        }
    }
}

#[derive(Clone, Debug)]
pub struct ConnCfg {
    pub keep_alive: KeepAlive,
    pub client_request_timeout_ms: u64,
    pub client_disconnect_timeout_ms: u64,
    pub half_closed: bool,
    pub write_buffer_size: Option<usize>,
}

impl Default for ConnCfg {
    fn default() -> Self {
        ConnCfg {
            keep_alive: KeepAlive::Timeout(Duration::from_secs(5)),
            client_request_timeout_ms: 5000,
            client_disconnect_timeout_ms: 0,
            half_closed: true,
            write_buffer_size: None,
        }
    }
}

/// result of one poll of the connection future
#[derive(Clone, Debug, PartialEq, Eq)]
pub enum ConnPoll {
    Pending,
    Done,
    /// Debug rendering of the DispatchError variant name
    Failed(String),
}

pub struct Conn {
    fut: Pin<Box<dyn Future<Output = Result<(), actix_http::error::DispatchError>>>>,
    pub wake: Arc<CountWake>,
    waker: Waker,
    pub finished: Option<ConnPoll>,
    pub polls: usize,
}

impl Conn {
    /// Build an HTTP/1 service around `svc` and start one connection over `io`.
    /// Must be called on an actix runtime. Yields once so that the date service ticks.
    pub async fn start<F, S, B>(cfg: ConnCfg, io: ScriptIo, svc: F) -> Conn
    where
        F: IntoServiceFactory<S, Request>,
        S: ServiceFactory<Request, Config = ()> + 'static,
        S::Error: Into<Response<actix_http::body::BoxBody>> + 'static,
        S::InitError: std::fmt::Debug,
        S::Response: Into<Response<B>> + 'static,
        <S::Service as Service<Request>>::Future: 'static,
        B: MessageBody + 'static,
    {
        let mut b = HttpService::<ScriptIo, S, B>::build()
            .keep_alive(cfg.keep_alive)
            .client_request_timeout(Duration::from_millis(cfg.client_request_timeout_ms))
            .client_disconnect_timeout(Duration::from_millis(cfg.client_disconnect_timeout_ms))
            .h1_allow_half_closed(cfg.half_closed);
        if let Some(n) = cfg.write_buffer_size {
            b = b.h1_write_buffer_size(n);
        }
        let factory = b.h1(svc);
        let service = factory.new_service(()).await.expect("service");
        tokio::task::yield_now().await;
        let fut = service.call((io, None));
        let (wake, waker) = CountWake::pair();
        Conn { fut: Box::pin(async move { let r = fut.await; drop(service); r }), wake, waker, finished: None, polls: 0 }
    }

    /// poll the connection future once (no-op after completion)
    pub fn poll(&mut self) -> ConnPoll {
        if let Some(f) = &self.finished {
            return f.clone();
        }
        self.polls += 1;
        self.wake.take();
        let mut cx = Context::from_waker(&self.waker);
        match self.fut.as_mut().poll(&mut cx) {
            Poll::Pending => ConnPoll::Pending,
            Poll::Ready(Ok(())) => {
                self.finished = Some(ConnPoll::Done);
                ConnPoll::Done
            }
            Poll::Ready(Err(e)) => {
                let name = format!("{:?}", e);
                let short = name.split(|c: char| !c.is_alphanumeric()).next().unwrap_or("").to_string();
                self.finished = Some(ConnPoll::Failed(short));
                self.finished.clone().unwrap()
            }
        }
    }

    /// number of times the connection's waker fired since the last poll
    pub fn woken(&self) -> usize {
        self.wake.count()
    }

    /// let spawned local tasks (date service, timers) run
    pub async fn settle() {
        for _ in 0..3 {
            tokio::task::yield_now().await;
        }
    }
}
