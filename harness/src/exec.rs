//! Manual polling helpers: a counting waker and a fresh single-threaded runtime per scenario.

use std::{
    future::Future,
    pin::Pin,
    sync::{
        atomic::{AtomicUsize, Ordering},
        Arc,
    },
    task::{Context, Poll, Wake, Waker},
};

/// Waker that counts how often it was woken.
#[derive(Default)]
pub struct CountWake(pub AtomicUsize);

impl Wake for CountWake {
    fn wake(self: Arc<Self>) {
        self.0.fetch_add(1, Ordering::SeqCst);
    }
    fn wake_by_ref(self: &Arc<Self>) {
        self.0.fetch_add(1, Ordering::SeqCst);
    }
}

impl CountWake {
    pub fn pair() -> (Arc<CountWake>, Waker) {
        let c = Arc::new(CountWake::default());
        let w = Waker::from(c.clone());
        (c, w)
    }
    pub fn count(&self) -> usize {
        self.0.load(Ordering::SeqCst)
    }
    /// returns the number of wakes since the last call and resets it
    pub fn take(&self) -> usize {
        self.0.swap(0, Ordering::SeqCst)
    }
}

/// poll a pinned future once with the given waker
pub fn poll_once<F: Future + ?Sized>(f: Pin<&mut F>, w: &Waker) -> Poll<F::Output> {
    let mut cx = Context::from_waker(w);
    f.poll(&mut cx)
}

/// run a future to completion on a fresh single-threaded actix runtime (LocalSet included)
pub fn run_local<F: Future>(f: F) -> F::Output {
    actix_rt::Runtime::new().expect("runtime").block_on(f)
}
