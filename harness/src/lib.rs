//! Shared helpers for the per-property harness binaries (`src/bin/cXX.rs`).
//!
//! Every binary follows one protocol (consumed by `tools/check.py`):
//!
//! ```text
//! cXX --seed <u64> --tier quick|thorough [--n <count>] [--corpus <file>] [--case '<json>']
//! ```
//!
//! and prints one JSON object per case on stdout (`CaseOut`) followed by one `{"summary": ..}`
//! line. All random choices derive from one SplitMix64 state seeded by `--seed`.

use std::collections::BTreeMap;

use serde::Serialize;

pub mod exec;
pub mod h1conn;

/// SplitMix64: the only source of randomness in the harness.
#[derive(Clone, Debug)]
pub struct Rng(pub u64);

impl Rng {
    pub fn new(seed: u64) -> Self {
        Rng(seed ^ 0x9E37_79B9_7F4A_7C15)
    }
    pub fn next(&mut self) -> u64 {
        self.0 = self.0.wrapping_add(0x9E37_79B9_7F4A_7C15);
        let mut z = self.0;
        z = (z ^ (z >> 30)).wrapping_mul(0xBF58_476D_1CE4_E5B9);
        z = (z ^ (z >> 27)).wrapping_mul(0x94D0_49BB_1331_11EB);
        z ^ (z >> 31)
    }
    /// uniform in `0..n` (n > 0)
    pub fn below(&mut self, n: u64) -> u64 {
        self.next() % n
    }
    pub fn range(&mut self, lo: u64, hi_incl: u64) -> u64 {
        lo + self.below(hi_incl - lo + 1)
    }
    pub fn chance(&mut self, num: u64, den: u64) -> bool {
        self.below(den) < num
    }
    pub fn pick<'a, T>(&mut self, xs: &'a [T]) -> &'a T {
        &xs[self.below(xs.len() as u64) as usize]
    }
    pub fn bytes(&mut self, n: usize) -> Vec<u8> {
        (0..n).map(|_| self.next() as u8).collect()
    }
    /// independent child generator (so that case i does not depend on how much case i-1 drew)
    pub fn fork(&mut self) -> Rng {
        Rng(self.next())
    }
}

/// Canonical result value; mirrors `AV.Lib.V.V` in Coq.
#[derive(Clone, Debug, PartialEq, Eq)]
pub enum V {
    N(u128),
    H(Vec<u8>),
    T(&'static str, Vec<V>),
    L(Vec<V>),
}

impl V {
    pub fn b(x: bool) -> V {
        V::N(x as u128)
    }
    pub fn n<T: Into<u128>>(x: T) -> V {
        V::N(x.into())
    }
    pub fn us(x: usize) -> V {
        V::N(x as u128)
    }
    pub fn h<B: AsRef<[u8]>>(x: B) -> V {
        V::H(x.as_ref().to_vec())
    }
    pub fn opt<T>(o: Option<T>, f: impl FnOnce(T) -> V) -> V {
        match o {
            None => V::T("none", vec![]),
            Some(x) => V::T("some", vec![f(x)]),
        }
    }
    pub fn t0(tag: &'static str) -> V {
        V::T(tag, vec![])
    }
    /// Gallina term of type `V`
    pub fn coq(&self) -> String {
        let mut s = String::new();
        self.coq_into(&mut s);
        s
    }
    fn coq_into(&self, s: &mut String) {
        match self {
            V::N(n) => {
                s.push_str(&format!("(VN {})", n));
            }
            V::H(b) => {
                s.push_str("(VH \"");
                s.push_str(&hex(b));
                s.push_str("\")");
            }
            V::T(t, args) => {
                s.push_str(&format!("(VT \"{}\" ", t));
                list_into(args, s);
                s.push(')');
            }
            V::L(items) => {
                s.push_str("(VL ");
                list_into(items, s);
                s.push(')');
            }
        }
    }
    /// short human-readable rendering (evidence samples, replay files)
    pub fn show(&self) -> String {
        match self {
            V::N(n) => n.to_string(),
            V::H(b) => format!("x{}", hex(b)),
            V::T(t, a) if a.is_empty() => t.to_string(),
            V::T(t, a) => format!("{}({})", t, a.iter().map(|v| v.show()).collect::<Vec<_>>().join(",")),
            V::L(a) => format!("[{}]", a.iter().map(|v| v.show()).collect::<Vec<_>>().join(",")),
        }
    }
}

fn list_into(xs: &[V], s: &mut String) {
    s.push('[');
    for (i, x) in xs.iter().enumerate() {
        if i > 0 {
            s.push_str("; ");
        }
        x.coq_into(s);
    }
    s.push(']');
}

pub fn hex(b: &[u8]) -> String {
    let mut s = String::with_capacity(b.len() * 2);
    for x in b {
        s.push_str(&format!("{:02x}", x));
    }
    s
}

pub fn unhex(s: &str) -> Vec<u8> {
    let b = s.as_bytes();
    (0..b.len() / 2)
        .map(|i| u8::from_str_radix(std::str::from_utf8(&b[2 * i..2 * i + 2]).unwrap(), 16).unwrap())
        .collect()
}

/// Gallina term `(hx "..")` : list N
pub fn coq_bytes(b: &[u8]) -> String {
    format!("(hx \"{}\")", hex(b))
}
pub fn coq_bool(b: bool) -> &'static str {
    if b {
        "true"
    } else {
        "false"
    }
}
pub fn coq_list<T>(xs: &[T], f: impl Fn(&T) -> String) -> String {
    format!("[{}]", xs.iter().map(f).collect::<Vec<_>>().join("; "))
}
pub fn coq_opt<T>(o: &Option<T>, f: impl Fn(&T) -> String) -> String {
    match o {
        None => "None".into(),
        Some(x) => format!("(Some {})", f(x)),
    }
}

/// One explored case, as printed to stdout.
#[derive(Serialize, Debug, Default)]
pub struct CaseOut {
    /// stable id within the run (`<origin>-<index>`)
    pub id: String,
    /// the case itself, re-playable with `--case`
    pub input: serde_json::Value,
    /// Gallina term of the property's `case` type (None: case not evaluated by the model)
    pub coq_case: Option<String>,
    /// Gallina term of type V: what the implementation did
    pub expect: Option<String>,
    /// human-readable implementation result
    pub impl_show: String,
    /// property oracle verdict on the implementation's behaviour alone
    pub oracle_ok: bool,
    pub oracle_why: String,
    /// decidable class of the *case* (not the outcome) used to match known findings; "" if none
    pub known_class: String,
    /// is this case non-trivial by the property's rule
    pub nontrivial: bool,
    /// signature used to count distinct cases
    pub sig: String,
    /// input-distribution tags (sizes, operation kinds, error classes)
    pub tags: Vec<String>,
}

pub struct Args {
    pub seed: u64,
    pub tier: String,
    pub n: Option<usize>,
    pub corpus: Option<String>,
    pub case: Option<String>,
}

pub fn parse_args() -> Args {
    let mut a = Args { seed: 1, tier: "quick".into(), n: None, corpus: None, case: None };
    let mut it = std::env::args().skip(1);
    while let Some(k) = it.next() {
        let mut v = || it.next().unwrap_or_else(|| panic!("missing value for {k}"));
        match k.as_str() {
            "--seed" => a.seed = v().parse().expect("seed"),
            "--tier" => a.tier = v(),
            "--n" => a.n = Some(v().parse().expect("n")),
            "--corpus" => a.corpus = Some(v()),
            "--case" => a.case = Some(v()),
            other => panic!("unknown argument {other}"),
        }
    }
    a
}

impl Args {
    pub fn thorough(&self) -> bool {
        self.tier == "thorough"
    }
    /// inputs from `--case` / `--corpus` (one JSON value per line), parsed by the caller
    pub fn fixed_inputs(&self) -> Vec<(String, serde_json::Value)> {
        let mut out = vec![];
        if let Some(c) = &self.case {
            out.push(("replay-0".to_string(), serde_json::from_str(c).expect("--case json")));
        }
        if let Some(path) = &self.corpus {
            if let Ok(text) = std::fs::read_to_string(path) {
                for (i, line) in text.lines().enumerate() {
                    let line = line.trim();
                    if line.is_empty() || line.starts_with('#') {
                        continue;
                    }
                    out.push((format!("corpus-{i}"), serde_json::from_str(line).expect("corpus json")));
                }
            }
        }
        out
    }
}

/// Collects tags and prints the final summary line.
#[derive(Default)]
pub struct Emitter {
    pub count: usize,
    pub tags: BTreeMap<String, usize>,
    pub panics: usize,
}

impl Emitter {
    pub fn emit(&mut self, c: CaseOut) {
        self.count += 1;
        for t in &c.tags {
            *self.tags.entry(t.clone()).or_default() += 1;
        }
        println!("{}", serde_json::to_string(&c).unwrap());
    }
    pub fn finish(&self) {
        println!(
            "{}",
            serde_json::json!({"summary": {"cases": self.count, "distribution": self.tags, "panics": self.panics}})
        );
    }
}

/// Run `f`, turning a panic into `Err(message)`; the default panic hook is silenced for the call.
pub fn catch<T>(f: impl FnOnce() -> T) -> Result<T, String> {
    let prev = std::panic::take_hook();
    std::panic::set_hook(Box::new(|_| {}));
    let r = std::panic::catch_unwind(std::panic::AssertUnwindSafe(f));
    std::panic::set_hook(prev);
    r.map_err(|e| {
        if let Some(s) = e.downcast_ref::<&str>() {
            s.to_string()
        } else if let Some(s) = e.downcast_ref::<String>() {
            s.clone()
        } else {
            "panic".to_string()
        }
    })
}

/// cut `data` into segments according to `cuts` (sorted, deduplicated offsets)
pub fn cut(data: &[u8], cuts: &[usize]) -> Vec<Vec<u8>> {
    let mut out = vec![];
    let mut last = 0;
    for &c in cuts {
        if c > last && c < data.len() {
            out.push(data[last..c].to_vec());
            last = c;
        }
    }
    out.push(data[last..].to_vec());
    out
}

/// a random segmentation: whole / bytewise / random cuts
pub fn random_cuts(rng: &mut Rng, len: usize) -> Vec<usize> {
    match rng.below(4) {
        0 => vec![],
        1 => (1..len).collect(),
        _ => {
            let k = rng.range(1, 6) as usize;
            let mut v: Vec<usize> = (0..k).filter_map(|_| if len > 1 { Some(rng.range(1, len as u64 - 1) as usize) } else { None }).collect();
            v.sort();
            v.dedup();
            v
        }
    }
}
